/* Independent reference reader for the exported formats of pyprobables, written
 * from the description only (layout + hashing rule); imports nothing from the
 * library.  Usage: reader <mode> <file>   with keys hex-encoded one per line on
 * stdin; prints one answer per key.
 *   modes: bloom | cbloom | cms-min | cms-mean | cms-meanmin | info
 * Layouts:
 *   Bloom:          ceil(m/8) bytes, bit i = bit (i mod 8) of byte (i div 8); footer QQf
 *   counting Bloom: m uint32 cells; footer QQf
 *   count-min:      width*depth int32 cells, row-major; footer IIq
 * Geometry from the footer: m = ceil(-n ln p / 0.4804530139182), k = round(ln2 m / n), p as float32.
 * Hash i of a key: 64-bit FNV-1a with offset basis 14695981039346656037 + 31*i; position = hash mod size.
 */
#include <inttypes.h>
#include <math.h>
#include <stdint.h>
#include <stdio.h>
#include <stdlib.h>
#include <string.h>

static uint64_t fnv1a(const unsigned char *key, size_t len, uint64_t seed) {
    uint64_t h = 14695981039346656037ULL + 31ULL * seed;
    for (size_t i = 0; i < len; i++) {
        h ^= key[i];
        h *= 1099511628211ULL;
    }
    return h;
}

static int64_t floordiv(int64_t a, int64_t b) {
    int64_t q = a / b;
    if ((a % b != 0) && ((a < 0) != (b < 0))) q--;
    return q;
}

static int cmp128(const void *a, const void *b) {
    __int128 x = *(const __int128 *)a, y = *(const __int128 *)b;
    return (x > y) - (x < y);
}

static void print_i128(__int128 v) {
    char buf[48];
    int n = 0, neg = v < 0;
    unsigned __int128 u = neg ? (unsigned __int128)(-(v + 1)) + 1 : (unsigned __int128)v;
    if (u == 0) buf[n++] = '0';
    while (u) { buf[n++] = (char)('0' + (int)(u % 10)); u /= 10; }
    if (neg) putchar('-');
    while (n) putchar(buf[--n]);
    putchar('\n');
}

static int cmp64(const void *a, const void *b) {
    int64_t x = *(const int64_t *)a, y = *(const int64_t *)b;
    return (x > y) - (x < y);
}

static int unhex(const char *s, unsigned char *out, size_t *len) {
    size_t n = strlen(s);
    while (n && (s[n - 1] == '\n' || s[n - 1] == '\r')) n--;
    if (n % 2) return -1;
    for (size_t i = 0; i < n / 2; i++) {
        unsigned int v;
        if (sscanf(s + 2 * i, "%2x", &v) != 1) return -1;
        out[i] = (unsigned char)v;
    }
    *len = n / 2;
    return 0;
}

int main(int argc, char **argv) {
    if (argc != 3) {
        fprintf(stderr, "usage: reader <mode> <file>\n");
        return 2;
    }
    const char *mode = argv[1];
    FILE *f = fopen(argv[2], "rb");
    if (!f) { perror("open"); return 2; }
    fseek(f, 0, SEEK_END);
    long size = ftell(f);
    fseek(f, 0, SEEK_SET);
    unsigned char *buf = malloc(size > 0 ? size : 1);
    if (fread(buf, 1, size, f) != (size_t)size) { fprintf(stderr, "short read\n"); return 2; }
    fclose(f);

    char line[8192];
    unsigned char key[4096];
    size_t klen;

    if (!strcmp(mode, "bloom") || !strcmp(mode, "cbloom") || !strcmp(mode, "info")) {
        if (size < 20) { fprintf(stderr, "too short\n"); return 3; }
        uint64_t est, added;
        float p;
        memcpy(&est, buf + size - 20, 8);
        memcpy(&added, buf + size - 12, 8);
        memcpy(&p, buf + size - 4, 4);
        double md = ceil((-(double)est * log((double)p)) / 0.4804530139182);
        uint64_t m = (uint64_t)md;
        uint64_t k = (uint64_t)nearbyint(0.6931471805599453 * (double)m / (double)est);
        int counting = !strcmp(mode, "cbloom");
        uint64_t arr = counting ? m * 4 : (m + 7) / 8;
        if (!strcmp(mode, "info")) {
            printf("%" PRIu64 " %" PRIu64 " %" PRIu64 " %" PRIu64 " %.9g\n", est, added, m, k, (double)p);
            return 0;
        }
        if ((uint64_t)size != arr + 20) { fprintf(stderr, "length %ld != %" PRIu64 "\n", size, arr + 20); return 3; }
        printf("# %" PRIu64 " %" PRIu64 " %" PRIu64 " %" PRIu64 "\n", est, added, m, k);
        while (fgets(line, sizeof line, stdin)) {
            if (unhex(line, key, &klen)) { fprintf(stderr, "bad key\n"); return 2; }
            if (!counting) {
                int present = 1;
                for (uint64_t i = 0; i < k; i++) {
                    uint64_t pos = fnv1a(key, klen, i) % m;
                    if (!((buf[pos / 8] >> (pos % 8)) & 1)) { present = 0; break; }
                }
                printf("%d\n", present);
            } else {
                uint32_t mn = UINT32_MAX;
                for (uint64_t i = 0; i < k; i++) {
                    uint64_t pos = fnv1a(key, klen, i) % m;
                    uint32_t c;
                    memcpy(&c, buf + 4 * pos, 4);
                    if (c < mn) mn = c;
                }
                printf("%" PRIu32 "\n", mn);
            }
        }
        return 0;
    }
    if (!strncmp(mode, "cms-", 4)) {
        if (size < 16) { fprintf(stderr, "too short\n"); return 3; }
        uint32_t width, depth;
        int64_t total;
        memcpy(&width, buf + size - 16, 4);
        memcpy(&depth, buf + size - 12, 4);
        memcpy(&total, buf + size - 8, 8);
        if ((uint64_t)size != (uint64_t)width * depth * 4 + 16) { fprintf(stderr, "length mismatch\n"); return 3; }
        printf("# %" PRIu32 " %" PRIu32 " %" PRId64 "\n", width, depth, total);
        int64_t *vals = malloc(sizeof(int64_t) * depth);
        while (fgets(line, sizeof line, stdin)) {
            if (unhex(line, key, &klen)) { fprintf(stderr, "bad key\n"); return 2; }
            for (uint32_t i = 0; i < depth; i++) {
                uint64_t pos = (fnv1a(key, klen, i) % width) + (uint64_t)i * width;
                int32_t c;
                memcpy(&c, buf + 4 * pos, 4);
                vals[i] = c;
            }
            qsort(vals, depth, sizeof(int64_t), cmp64);
            if (!strcmp(mode, "cms-min")) {
                printf("%" PRId64 "\n", vals[0]);
            } else if (!strcmp(mode, "cms-mean")) {
                int64_t s = 0;
                for (uint32_t i = 0; i < depth; i++) s += vals[i];
                printf("%" PRId64 "\n", floordiv(s, depth));
            } else {
                if (vals[0] == 0 && vals[depth - 1] == 0) { printf("0\n"); continue; }
                if (width < 2) { printf("zerodiv\n"); continue; }
                /* total may be pinned at +-2^63 while a cell is of the other sign: the adjusted values then lie
                   outside the 64-bit range (the library computes them as unbounded integers); keep them exact */
                __int128 *adj = malloc(sizeof(__int128) * depth);
                for (uint32_t i = 0; i < depth; i++) {
                    __int128 diff = (__int128)total - (__int128)vals[i];
                    __int128 w1 = (__int128)width - 1;
                    __int128 q = diff / w1;
                    if ((diff % w1 != 0) && (diff < 0)) q--;
                    adj[i] = (__int128)vals[i] - q;
                }
                qsort(adj, depth, sizeof(__int128), cmp128);
                __int128 r;
                if (depth % 2 == 0) {
                    __int128 s2 = adj[depth / 2] + adj[depth / 2 - 1];
                    __int128 q2 = s2 / 2;
                    if ((s2 % 2 != 0) && (s2 < 0)) q2--;
                    r = q2;
                } else r = adj[depth / 2];
                free(adj);
                print_i128(r);
            }
        }
        return 0;
    }
    fprintf(stderr, "unknown mode %s\n", mode);
    return 2;
}
