"""Independent reference writer for pyprobables' exported formats, written from
the documented layout and hashing rule only.  Imports nothing from `probables`.

Each class replays an operation history and produces the bytes the library is
expected to export for the same history.
"""
import math
import struct

U32 = 2**32 - 1
U64 = 2**64 - 1
I32MAX = 2**31 - 1
I32MIN = -(2**31)
I64MAX = 2**63 - 1
I64MIN = -(2**63)


def fnv1a64(key, seed=0):
    h = (14695981039346656037 + 31 * seed) & U64
    data = key.encode("ascii") if isinstance(key, str) else bytes(key)
    for b in data:
        h ^= b
        h = (h * 1099511628211) & U64
    return h


def f32(x):
    return struct.unpack("f", struct.pack("f", float(x)))[0]


def geometry(est, rate):
    p = f32(rate)
    m = math.ceil((-est * math.log(p)) / 0.4804530139182)
    k = int(round(0.6931471805599453 * m / est))
    return m, k


def clamp(v, lo, hi):
    return lo if v < lo else hi if v > hi else v


class RefBloom:
    def __init__(self, est, rate):
        self.est, self.rate = est, f32(rate)
        self.m, self.k = geometry(est, rate)
        self.bits = bytearray((self.m + 7) // 8)
        self.count = 0

    def positions(self, key):
        return [fnv1a64(key, i) % self.m for i in range(self.k)]

    def add(self, key):
        for p in self.positions(key):
            self.bits[p // 8] |= 1 << (p % 8)
        self.count += 1

    def check(self, key):
        return all((self.bits[p // 8] >> (p % 8)) & 1 for p in self.positions(key))

    def footer(self):
        return struct.pack("QQf", self.est, self.count, self.rate)

    def export(self):
        return bytes(self.bits) + self.footer()

    def export_hex(self):
        return (bytes(self.bits) + struct.pack(">QQf", self.est, self.count, self.rate)).hex()


class RefCountingBloom:
    def __init__(self, est, rate):
        self.est, self.rate = est, f32(rate)
        self.m, self.k = geometry(est, rate)
        self.cells = [0] * self.m
        self.count = 0

    def positions(self, key):
        return [fnv1a64(key, i) % self.m for i in range(self.k)]

    def add(self, key, n=1):
        for p in self.positions(key):
            self.cells[p] = min(self.cells[p] + n, U32)
        self.count = min(self.count + n, U64)

    def remove(self, key, n=1):
        pos = self.positions(key)
        mn = min(self.cells[p] for p in pos)
        if mn in (0, U32):
            return
        t = min(n, mn)
        for p in pos:
            if self.cells[p] < U32:
                self.cells[p] -= t
        self.count -= t

    def check(self, key):
        return min(self.cells[p] for p in self.positions(key))

    def export(self):
        return struct.pack(f"{self.m}I", *self.cells) + struct.pack("QQf", self.est, self.count, self.rate)


class RefSketch:
    def __init__(self, width, depth):
        self.w, self.d = width, depth
        self.cells = [0] * (width * depth)
        self.total = 0

    def bins(self, key):
        return [(fnv1a64(key, i) % self.w) + i * self.w for i in range(self.d)]

    def add(self, key, n=1):
        for b in self.bins(key):
            self.cells[b] = clamp(self.cells[b] + n, I32MIN, I32MAX)
        self.total = clamp(self.total + n, I64MIN, I64MAX)

    def remove(self, key, n=1):
        for b in self.bins(key):
            self.cells[b] = clamp(self.cells[b] - n, I32MIN, I32MAX)
        self.total = clamp(self.total - n, I64MIN, I64MAX)

    def export(self):
        return struct.pack(f"{len(self.cells)}i", *self.cells) + struct.pack("IIq", self.w, self.d, self.total)


class RefExpanding:
    """Sequence of Bloom filters, each preceded by its own insertion count; footer QQQf."""

    def __init__(self, est, rate, max_queue=None):
        self.est, self.rate = est, f32(rate)
        self.max_queue = max_queue  # None: expanding; int: rotating
        self.filters = [RefBloom(est, rate)]
        self.calls = 0

    def check(self, key):
        return any(f.check(key) for f in self.filters)

    def _grow(self, forced):
        newest_full = self.filters[-1].count >= self.est if self.max_queue is None else self.filters[-1].count == self.est
        if not (forced or newest_full):
            return
        if self.max_queue is not None and len(self.filters) >= self.max_queue:
            self.filters.pop(0)
        self.filters.append(RefBloom(self.est, self.rate))

    def add(self, key, force=False):
        self.calls += 1
        if force or not self.check(key):
            self._grow(False)
            self.filters[-1].add(key)

    def push(self):
        self._grow(True)

    def pop(self):
        if len(self.filters) > 1:
            self.filters.pop(0)

    def export(self):
        out = b""
        for f in self.filters:
            out += struct.pack("Q", f.count) + bytes(f.bits)
        return out + struct.pack("QQQf", len(self.filters), self.est, self.calls, self.rate)


def parse_cuckoo(payload, counting):
    """Parse a (counting) cuckoo export by layout.  Returns dict(bucket_size, max_swaps, capacity, buckets)
    where buckets is a list of lists of fingerprints (or (fingerprint, count))."""
    bucket_size, max_swaps = struct.unpack("II", payload[-8:])
    body = payload[:-8]
    slot = 8 if counting else 4
    if bucket_size == 0 or len(body) % (slot * bucket_size):
        return None
    capacity = len(body) // slot // bucket_size
    buckets = []
    off = 0
    for _ in range(capacity):
        b = []
        for _ in range(bucket_size):
            if counting:
                fp, cnt = struct.unpack("II", body[off:off + 8])
                if fp:
                    b.append((fp, cnt))
            else:
                (fp,) = struct.unpack("I", body[off:off + 4])
                if fp:
                    b.append(fp)
            off += slot
        buckets.append(b)
    return {"bucket_size": bucket_size, "max_swaps": max_swaps, "capacity": capacity, "buckets": buckets}


def cuckoo_fingerprint(key, finger_bytes):
    fp = fnv1a64(key) & ((1 << (8 * finger_bytes)) - 1)
    return fp if fp else 1  # 0 marks an empty slot


def cuckoo_buckets_of(fp, capacity):
    return fp % capacity, fnv1a64(str(fp)) % capacity


def parse_c_header(text):
    """Parse the C header written by export_c_header: constants and the byte array."""
    import re

    consts = {}
    for name in ("estimated_elements", "elements_added", "false_positive_rate", "number_bits", "number_hashes"):
        m = re.search(r"\b" + name + r"\s*=\s*([^;]+);", text)
        if m:
            consts[name] = m.group(1).strip()
    m = re.search(r"bloom\[\]\s*=\s*\{(.*?)\};", text, re.S)
    data = bytes(int(x, 16) for x in re.findall(r"0x([0-9a-fA-F]{2})", m.group(1))) if m else None
    return consts, data
