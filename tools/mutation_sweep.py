#!/venv/bin/python
"""Systematic sensitivity measurement: operator mutants of probables/*.py that survive the pinned test-suite are
run against the checks that cover the mutated file; whatever survives both is listed for manual triage
(equivalent mutant or a gap in a check).

usage: tools/mutation_sweep.py phase1 [workers]          -> /dev/shm/mutsweep/survivors.jsonl (test-suite survivors)
       tools/mutation_sweep.py phase2 [max] [divisor]    -> /dev/shm/mutsweep/results.jsonl   (checks vs survivors)
Scratch copies live under /dev/shm/mutsweep and are removed at the end of each phase.
"""
import ast
import json
import os
import re
import shutil
import subprocess
import sys
import time
from concurrent.futures import ThreadPoolExecutor

VERIF = os.path.dirname(os.path.dirname(os.path.abspath(__file__)))
ROOT = "/dev/shm/mutsweep"
FILES = {
    "probables/blooms/bloom.py": ["C01", "C11", "C05", "C12", "C13", "C14", "C19", "C06"],
    "probables/blooms/countingbloom.py": ["C08", "C16", "C05", "C12", "C13", "C14", "C19", "C06"],
    "probables/blooms/expandingbloom.py": ["C09", "C10", "C01", "C05", "C14", "C19", "C06"],
    "probables/countminsketch/countminsketch.py": ["C02", "C17", "C16", "C05", "C12", "C13", "C14", "C19", "C06"],
    "probables/cuckoo/cuckoo.py": ["C03", "C15", "C14", "C05", "C08", "C19", "C06"],
    "probables/cuckoo/countingcuckoo.py": ["C08", "C03", "C15", "C14", "C05", "C19", "C06"],
    "probables/quotientfilter/quotientfilter.py": ["C04", "C14", "C19"],
    "probables/utilities.py": ["C04", "C05", "C11", "C01"],
    "probables/hashes.py": ["C06", "C01", "C02", "C04"],
}
SUBS = [
    (r"== 1\b", "== 0"), (r"== 0\b", "== 1"), (r"!=", "=="), (r"==", "!="), (r">=", ">"), (r"(?<![<>=!-])>(?![=>])", ">="),
    (r"<=", "<"), (r"(?<![<>=!])<(?![=<])", "<="), (r"\band\b", "or"), (r"\bor\b", "and"), (r"\+ 1\b", "- 1"),
    (r"- 1\b", "+ 1"), (r"\+=", "-="), (r"-=", "+="), (r"\bnot ", ""), (r"\bis None\b", "is not None"),
    (r"\bis not None\b", "is None"), (r"\bTrue\b", "False"), (r"\bFalse\b", "True"), (r"\bmin\(", "max("),
    (r"\bmax\(", "min("), (r"\[0\]", "[-1]"), (r"\[-1\]", "[0]"), (r"pop\(0\)", "pop()"), (r" // ", " / "), (r" % ", " // "),
    (r" \| ", " & "), (r" & ", " | "), (r"\bidx_1\b", "idx_2"), (r"\bidx_2\b", "idx_1"), (r"\bindex_1\b", "index_2"),
    (r"\bINT32_T_MAX\b", "INT32_T_MIN"), (r"\bUINT32_T_MAX\b", "UINT64_T_MAX"), (r"\bINT64_T_MAX\b", "INT32_T_MAX"),
    (r"\bnum_els\b", "1"), (r"\bcount\b", "1"), (r"\bself\.bucket_size\b", "(self.bucket_size + 1)"),
    (r"\bself\.capacity\b", "(self.capacity + 1)"), (r"\bself\.width\b", "(self.width + 1)"), (r"\bself\.depth\b", "(self.depth - 1)"),
    (r"\bnext_idx\b", "idx"), (r"(?<![_.\w])idx\b", "next_idx"), (r"\bmin_idx\b", "idx"), (r"_is_continuation", "_is_shifted"),
    (r"_is_shifted", "_is_continuation"), (r"_is_cluster_start", "_is_run_start"), (r"starts == 2", "starts == 1"),
    (r"cnts == 1", "cnts == 0"), (r"\bhash_function=\w+(\.\w+)*", "hash_function=None"), (r"\bels_added\b", "0"),
    (r"\bself\._number_hashes\b", "(self._number_hashes - 1)"), (r"\bk % 8\b", "k % 7"), (r"\bk // 8\b", "k // 9"),
]


def docstring_lines(src):
    skip = set()
    tree = ast.parse(src)
    for node in ast.walk(tree):
        if isinstance(node, (ast.FunctionDef, ast.ClassDef, ast.Module, ast.AsyncFunctionDef)):
            body = getattr(node, "body", [])
            if body and isinstance(body[0], ast.Expr) and isinstance(getattr(body[0], "value", None), ast.Constant) \
                    and isinstance(body[0].value.value, str):
                for ln in range(body[0].lineno, body[0].end_lineno + 1):
                    skip.add(ln)
    return skip


def gen_mutants():
    muts = []
    for rel in FILES:
        src = open(os.path.join("/repo", rel)).read()
        lines = src.split("\n")
        skip = docstring_lines(src)
        for i, line in enumerate(lines):
            ln = i + 1
            st = line.strip()
            if ln in skip or not st or st.startswith("#") or st.startswith(("import ", "from ", "@", "__slots__", '"')):
                continue
            if st.startswith(("msg =", "raise ", "f\"", "\"")) or "Error(" in st:
                continue
            code = line.split("  #")[0]
            seen = set()
            for pat, rep in SUBS:
                for m in re.finditer(pat, code):
                    new = code[:m.start()] + rep + code[m.end():]
                    if new != code and new not in seen:
                        seen.add(new)
                        muts.append({"file": rel, "ln": ln, "old": line, "new": new})
            # statement deletion
            if (not st.endswith((":", ",", "(", "[", "{")) and not st.startswith(("return", "def ", "class ", ")", "]", "}", "else",
                                                                                    "elif", "try", "except", "finally", "break",
                                                                                    "continue", "pass", "yield"))
                    and "=" in st and st.count("(") == st.count(")")):
                ind = line[: len(line) - len(line.lstrip())]
                muts.append({"file": rel, "ln": ln, "old": line, "new": ind + "pass"})
    for i, m in enumerate(muts):
        m["i"] = i
    return muts


def fresh_copy(path):
    if os.path.exists(path):
        shutil.rmtree(path)
    os.makedirs(path)
    subprocess.run(f"git -C /repo archive HEAD | tar -x -C {path}", shell=True, check=True)


def apply(copy, m):
    p = os.path.join(copy, m["file"])
    lines = open(os.path.join("/repo", m["file"])).read().split("\n")
    assert lines[m["ln"] - 1] == m["old"]
    lines[m["ln"] - 1] = m["new"]
    open(p, "w").write("\n".join(lines))


def restore(copy, m):
    shutil.copy(os.path.join("/repo", m["file"]), os.path.join(copy, m["file"]))


def phase1(workers):
    os.makedirs(ROOT, exist_ok=True)
    muts = gen_mutants()
    print(f"{len(muts)} mutants", flush=True)
    out = open(os.path.join(ROOT, "survivors.jsonl"), "w")
    copies = [os.path.join(ROOT, f"copy{w}") for w in range(workers)]
    for c in copies:
        fresh_copy(c)

    def work(w):
        surv = []
        copy = copies[w]
        for m in muts[w::workers]:
            apply(copy, m)
            try:
                compile(open(os.path.join(copy, m["file"])).read(), m["file"], "exec")
            except SyntaxError:
                restore(copy, m)
                continue
            try:
                r = subprocess.run(["/venv/bin/python", "-m", "pytest", "-q", "-x", "-p", "no:cacheprovider", "--timeout=60", "tests"],
                                   cwd=copy, capture_output=True, text=True, timeout=300)
                ok = r.returncode == 0
            except subprocess.TimeoutExpired:
                ok = False
            restore(copy, m)
            if ok:
                out.write(json.dumps(m) + "\n")
                out.flush()
                surv.append(m)
        return surv

    t0 = time.time()
    with ThreadPoolExecutor(max_workers=workers) as ex:
        res = list(ex.map(work, range(workers)))
    n = sum(len(r) for r in res)
    print(f"{n} of {len(muts)} mutants survive the test-suite ({time.time() - t0:.0f}s)")
    for c in copies:
        shutil.rmtree(c, ignore_errors=True)


def phase2(limit, divisor):
    surv = [json.loads(l) for l in open(os.path.join(ROOT, "survivors.jsonl"))]
    surv.sort(key=lambda m: m["i"])
    done = set()
    resf = os.path.join(ROOT, "results.jsonl")
    if os.path.exists(resf):
        done = {json.loads(l)["i"] for l in open(resf)}
    out = open(resf, "a")
    copy = os.path.join(ROOT, "copyP2")
    fresh_copy(copy)
    quick = {}
    for m in surv[:limit]:
        if m["i"] in done:
            continue
        apply(copy, m)
        rec = dict(m, caught_by=None, ran=[])
        env = dict(os.environ, VERIF_REPO=copy, DSIM_OUT=os.path.join(ROOT, "out"))
        for p in FILES[m["file"]]:
            if p not in quick:
                sys.path.insert(0, VERIF)
                spec = __import__(f"dsim.props.{p.lower()}", fromlist=["SPEC"]).SPEC
                quick[p] = spec.runs["quick"]
            runs = max(300, quick[p] // divisor)
            t0 = time.time()
            try:
                r = subprocess.run([os.path.join(VERIF, "check"), p, "--runs", str(runs), "--selftest", "0"], cwd=VERIF, env=env,
                                   capture_output=True, text=True, timeout=1200)
                code = r.returncode
                kinds = [l.strip()[:160] for l in r.stdout.splitlines() if l.strip().startswith("violation kind=")][:2]
                tail = r.stderr.strip().splitlines()[-2:] if code == 2 else []
            except subprocess.TimeoutExpired:
                code, kinds, tail = 124, [], ["timeout"]
            rec["ran"].append([p, code, round(time.time() - t0, 1), kinds, tail])
            if code != 0:
                rec["caught_by"] = p if code == 1 else f"{p}(exit {code})"
                break
        restore(copy, m)
        out.write(json.dumps(rec) + "\n")
        out.flush()
        print(m["i"], m["file"].split("/")[-1], m["ln"], "CAUGHT " + str(rec["caught_by"]) if rec["caught_by"] else "SURVIVED",
              "|", m["old"].strip()[:60], "=>", m["new"].strip()[:60], flush=True)
    shutil.rmtree(copy, ignore_errors=True)
    shutil.rmtree(os.path.join(ROOT, "out"), ignore_errors=True)


if __name__ == "__main__":
    if sys.argv[1] == "phase1":
        phase1(int(sys.argv[2]) if len(sys.argv) > 2 else 8)
    elif sys.argv[1] == "one":
        # re-run selected survivors (by mutant index) against given checks: one <i,j,...> <P1,P2> [runs]
        ids = {int(x) for x in sys.argv[2].split(",")}
        surv = [json.loads(l) for l in open(os.path.join(ROOT, "survivors.jsonl"))]
        copy = os.path.join(ROOT, "copyOne")
        fresh_copy(copy)
        for m in surv:
            if m["i"] not in ids:
                continue
            apply(copy, m)
            env = dict(os.environ, VERIF_REPO=copy, DSIM_OUT=os.path.join(ROOT, "outOne"))
            for p in sys.argv[3].split(","):
                cmd = [os.path.join(VERIF, "check"), p, "--selftest", "0"] + (["--runs", sys.argv[4]] if len(sys.argv) > 4 else [])
                r = subprocess.run(cmd, cwd=VERIF, env=env, capture_output=True, text=True)
                kinds = [l.strip()[:200] for l in r.stdout.splitlines() if l.strip().startswith("violation kind=")][:1]
                print(m["i"], p, "exit", r.returncode, kinds, flush=True)
            restore(copy, m)
        shutil.rmtree(copy, ignore_errors=True)
        shutil.rmtree(os.path.join(ROOT, "outOne"), ignore_errors=True)
    elif sys.argv[1] == "gen":
        print(len(gen_mutants()))
    else:
        phase2(int(sys.argv[2]) if len(sys.argv) > 2 else 10**9, int(sys.argv[3]) if len(sys.argv) > 3 else 4)
