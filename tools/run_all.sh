#!/bin/bash
# run every claimed check at the given tier (default quick); print one status line each
tier=${1:-quick}
cd "$(dirname "$0")/.."
rc=0
for p in $(python3 -c "import json;print(' '.join(c['property_id'] for c in json.load(open('MANIFEST.json'))['checks']))"); do
  start=$(date +%s)
  out=$(./check $p --tier $tier 2>&1); code=$?
  end=$(date +%s)
  echo "$p exit=$code $((end-start))s $(echo "$out" | grep -c '^VIOLATION') violations $(echo "$out" | grep -c '^KNOWN-FINDING') known"
  if [ $code -ne 0 ]; then echo "$out" | tail -5; rc=1; fi
done
python3-vt - <<'PY'
import json,jsonschema,glob
sch=json.load(open('/root/.vp/EVIDENCE.schema.json'))
for f in sorted(glob.glob('evidence/*.json')):
    jsonschema.validate(json.load(open(f)), sch)
print('all evidence files valid')
PY
exit $rc
