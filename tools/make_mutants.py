#!/venv/bin/python
"""Hand-written sensitivity mutants (DESIGN 8): small edits that keep the 312 tests green.
Writes mutants/<name>/{patch.diff,meta.json} using a scratch worktree."""
import json
import os
import subprocess
import sys

VERIF = os.path.dirname(os.path.dirname(os.path.abspath(__file__)))
B = "probables/blooms/bloom.py"
CB = "probables/blooms/countingbloom.py"
EB = "probables/blooms/expandingbloom.py"
CM = "probables/countminsketch/countminsketch.py"
CK = "probables/cuckoo/cuckoo.py"
CC = "probables/cuckoo/countingcuckoo.py"
QF = "probables/quotientfilter/quotientfilter.py"

M = [
    ("m01-expanding-check-newest-only", "C01", EB, "        for blm in self._blooms:\n            if blm.check_alt(hashes):\n                return True\n        return False",
     "        for blm in self._blooms[-2:]:\n            if blm.check_alt(hashes):\n                return True\n        return False"),
    ("m02-cms-remove-skips-last-row", "C02", CM, "        self.__elements_added -= num_els\n        if self.elements_added < INT64_T_MIN:",
     "        if len(bins) > 3:\n            self._bins[bins[-1]] += num_els\n        self.__elements_added -= num_els\n        if self.elements_added < INT64_T_MIN:"),
    ("m03-cuckoo-expand-drops-leftover", "C03", CK, "        if extra_fingerprint is not None:\n            fingerprints.append(extra_fingerprint)\n",
     "        if extra_fingerprint is not None and self.capacity > 1:\n            fingerprints.append(extra_fingerprint)\n"),
    ("m04-cuckoo-rollback-off-by-one", "C03", CK, "        for idx, swap_elm, swb in reversed(swaps):", "        for idx, swap_elm, swb in reversed(swaps[1:]):"),
    ("m05-qf-contained-stops-early", "C04", QF, "            if starts == 2 or self._filter[start_idx] > r:", "            if starts == 2 or self._filter[start_idx] >= r + 2:"),
    ("m06-bloom-frombytes-count", "C05", EB, "        blm._added_elements = added_els\n        return blm\n\n    def __contains__",
     "        blm._added_elements = added_els if size < 3 else added_els - 1\n        return blm\n\n    def __contains__"),
    ("m07-hex-footer-order", "C06", B, "            self.estimated_elements,\n            self.elements_added,\n            self.false_positive_rate,\n        )\n        bytes_string",
     "            self.estimated_elements,\n            self.elements_added if self.elements_added < 40 else 40,\n            self.false_positive_rate,\n        )\n        bytes_string"),
    ("m08-ccuckoo-remove-keeps-zero-bin", "C08", CC, "                if bucket.count == 0:\n                    self.buckets[idx].remove(bucket)",
     "                if bucket.count == 0 and idx == idx_1:\n                    self.buckets[idx].remove(bucket)"),
    ("m09-expanding-growth-gt", "C09", EB, "        if self._blooms[-1].elements_added >= self.__est_elements:", "        if self._blooms[-1].elements_added > self.__est_elements:"),
    ("m10-rotating-drops-two", "C10", EB, "        elif ready_to_rotate:\n            blm = self._blooms.pop(0)\n            self.__add_bloom_filter()",
     "        elif ready_to_rotate:\n            blm = self._blooms.pop(0)\n            if len(self._blooms) > 2:\n                self._blooms.pop(0)\n            self.__add_bloom_filter()"),
    ("m11-ondisk-count-before-bits", "C11", B, "    def add_alt(self, hashes: HashResultsT) -> None:\n        super().add_alt(hashes)\n        self.__update()\n",
     "    def add_alt(self, hashes: HashResultsT) -> None:\n        self._els_added += 1\n        self.__update()\n        self._els_added -= 1\n        super().add_alt(hashes)\n        self.__update()\n"),
    ("m12-ondisk-no-update-on-add", "C11", B, "    def add_alt(self, hashes: HashResultsT) -> None:\n        super().add_alt(hashes)\n        self.__update()\n",
     "    def add_alt(self, hashes: HashResultsT) -> None:\n        super().add_alt(hashes)\n        if self._els_added % 5:\n            self.__update()\n"),
    ("m13-union-ondisk-xor", "C12", B, "            res._bloom[i] = self._get_element(i) | second._get_element(i)",
     "            res._bloom[i] = (self._get_element(i) | second._get_element(i)) if not second.is_on_disk else (self._get_element(i) ^ second._get_element(i))"),
    ("m14-jaccard-counting-asym", "C13", CB, "            if self._bloom[i] > 0 and second._bloom[i] > 0:\n                count_inter += 1",
     "            if self._bloom[i] > 0 and second._bloom[i] > 1:\n                count_inter += 1"),
    ("m15-cuckoo-remove-no-decrement-idx2", "C14", CK, "        self.buckets[idx].remove(fingerprint)\n        self._inserted_elements -= 1",
     "        self.buckets[idx].remove(fingerprint)\n        if idx == idx_1:\n            self._inserted_elements -= 1"),
    ("m16-cuckoo-alt-index-inverted", "C15", CK, "            idx = index_2 if idx == index_1 else index_1\n\n            if self.__insert_element(fingerprint, idx):",
     "            idx = index_2 if idx != index_2 else index_1\n\n            if self.__insert_element(fingerprint, idx):"),
    ("m17-cms-join-no-clamp-low", "C16", CM, "            elif tmp_els < INT32_T_MIN:\n                self._bins[i] = INT32_T_MIN", "            elif tmp_els < INT32_T_MIN:\n                self._bins[i] = INT32_T_MIN + 1"),
    ("m18-hh-replace-ge", "C17", CM, "        elif res > self.__smallest:  # something in there is smaller", "        elif res > self.__smallest + 1:  # something in there is smaller"),
    ("m19-check-bumps-counter", "C19", EB, "        hashes = self._blooms[0].hashes(key)\n        return self.check_alt(hashes)",
     "        hashes = self._blooms[0].hashes(key)\n        if len(self._blooms) > 2:\n            self._added_elements += 0 if self.check_alt(hashes) else 1\n        return self.check_alt(hashes)"),
    ("m20-ondisk-seek-offset", "C11", B, "        self.__file_pointer.seek(-1 * self._UPDATE_OFFSET.size, os.SEEK_END)",
     "        self.__file_pointer.seek(-1 * self._UPDATE_OFFSET.size if self._els_added < 7 else -13, os.SEEK_END)"),
]


def main():
    wt = f"/dev/shm/mutwt-{os.getpid()}"
    subprocess.run(f"git -C /repo worktree add -q --detach {wt} HEAD", shell=True, check=True)
    try:
        for name, prop, path, old, new in M:
            fp = os.path.join(wt, path)
            s = open(fp).read()
            if s.count(old) != 1:
                print(f"!! {name}: pattern found {s.count(old)} times", file=sys.stderr)
                continue
            open(fp, "w").write(s.replace(old, new))
            d = os.path.join(VERIF, "mutants", name)
            os.makedirs(d, exist_ok=True)
            diff = subprocess.run(f"git -C {wt} diff", shell=True, capture_output=True, text=True).stdout
            open(os.path.join(d, "patch.diff"), "w").write(diff)
            json.dump({"id": name, "property": prop, "summary": "hand-written sensitivity mutant", "files": [path]},
                      open(os.path.join(d, "meta.json"), "w"), indent=1)
            subprocess.run(f"git -C {wt} checkout -q -- .", shell=True, check=True)
            print("wrote", name)
    finally:
        subprocess.run(f"git -C /repo worktree remove --force {wt}", shell=True)


if __name__ == "__main__":
    main()
