#!/venv/bin/python
"""Regenerate /verif/MANIFEST.json from the per-property specs (dsim/props/*.py)."""
import json
import os
import sys

VERIF = os.path.dirname(os.path.dirname(os.path.abspath(__file__)))
sys.path.insert(0, VERIF)

from dsim import core  # noqa: E402

core.import_repo()
from dsim.runner import load_prop  # noqa: E402

CLAIMED = ["C01", "C02", "C03", "C04", "C05", "C06", "C08", "C09", "C10", "C11", "C12", "C13", "C14", "C15", "C16",
           "C17", "C19"]

TEXT = {
    "C01": ("Seeded search over histories x restart faults (export+load over every channel, close/drop+reopen, union, "
            "push, chdir, stale destinations) x 7 hash strategies x sizings; every added key is re-queried after every "
            "step and the exported bits must be monotone.  Sampling, not proof.", "4 C01"),
    "C02": ("THIN: seeded histories against a Counter model with an adversarial (range-squeezed) hash strategy; the only "
            "injected events are a second live sketch that took the subject's counts by join and is then updated on its "
            "own, and a query-mode round trip; half of the runs are plain histories.  The simulator contributes "
            "generator, hash seam, model, replay and shrinking.", "4 C02"),
    "C03": ("Seeded search over eviction schedules: every random.choice/randint of both cuckoo filters is answered by the "
            "simulator (4 strategies, explicit tapes, fan-out of the same insertion under other tapes from a deep-copied "
            "pre-state), with table-full and failed-expansion as the faults; fingerprint-level model re-queried after "
            "every call.  'ALL resolutions' is approached, not exhausted.", "4 C03"),
    "C04": ("Seeded histories over a structured hash universe against a Python set, every public call under a "
            "deterministic step budget (sys.monitoring line events) so that non-termination is a replayable violation; "
            "exploration, no proof.", "4 C04"),
    "C05": ("Seeded restart faults (export over every channel -> load through the class's own loader -> replace the "
            "structure) inside mutation histories of all twelve exportable classes, with cwd changes, 4 path spellings "
            "and stale destinations.", "4 C05"),
    "C06": ("Two-party interoperability over the storage channel: an independent C reader and an independent Python "
            "writer, both written from the description, must agree with the library on every exported file / answer of "
            "seeded histories.  No fault injected; exploration.", "4 C06"),
    "C08": ("Seeded eviction schedules (counting cuckoo) and collision-forcing hash strategies (counting Bloom) against "
            "exact count models, LIFO bracket checks on exported bytes; eviction chains up to 2500 swaps, prior-life "
            "objects at re-used addresses and look-up bursts.", "4 C08"),
    "C09": ("Seeded histories with restart faults; per-sub-filter counts parsed from the exported stream by layout after "
            "every step; capacities 1..8 and, in 1 run of 40, 256..5000 with bulk fills.", "4 C09"),
    "C10": ("THIN: seeded histories (add / push / pop, bursts, queues of up to 300 filters) with a hash seam; no restart "
            "(the statement excludes it).", "4 C10"),
    "C11": ("Fault enumeration: histories are sampled from the seed, but within every add / close / drop / export of a "
            "history EVERY library line event is taken as a crash point and the file image (fresh descriptor) is judged "
            "against the three rules; kill+restart continues runs from crash images; a seeded sample of crash points is "
            "cross-checked against a real fork+SIGKILL.", "4 C11"),
    "C12": ("Seeded two-stream histories; union / join result compared cell for cell with the single-stream structure, "
            "on-disk operands in either position, per-operand hash closures, user subclasses, join into a fresh sketch; "
            "after every combine the result is mutated and both operands are compared with their snapshots.", "4 C12"),
    "C13": ("Seeded pairs in drawn relations (compatible, identical, different est / rate / hash, foreign types); AND / "
            "popcount oracles computed by the harness; operand immutability includes the backing file.", "4 C13"),
    "C14": ("Counter oracle after every step of every world's history: all eviction schedules and fan-out branches of "
            "world K, every restart and reopen, quotient-filter removals/resizes/merges; Bloom statistics recomputed "
            "from exported bits.", "4 C14"),
    "C15": ("Same schedule machinery as C03; structural invariants of the exposed bucket table checked after every call, "
            "fan-out branch, raised error and load.", "4 C15"),
    "C16": ("Seeded short histories over amounts around 2^31, 2^32, 2^63, 2^64 with colliding positions; big-int cell "
            "model with the stated pinning compared with the exported cells after every step; returned values compared "
            "with check() right afterwards; the second operand of a join stays alive and must never change.", "4 C16"),
    "C17": ("THIN: seeded histories over a key universe larger than the table (tables of 1..10 and 512..600 entries), "
            "colliding widths, a prior-life object at the subject's address; the oracle is the value each add/remove "
            "returned.", "4 C17"),
    "C19": ("State capture / read-only batch / state compare at seeded points of every world's history, incl. exports into "
            "a sink that fails at a seeded write (sink_error) and non-receiver roles; clear() vs a fresh twin over a "
            "common suffix.", "4 C19"),
}

TECH = {
    "C11": "deterministic simulation: seeded histories + complete line-level crash-point enumeration per operation, kill/restart, real-SIGKILL cross-check",
    "C03": "deterministic simulation: simulator-owned eviction schedule (decision tapes, strategies, fan-out) + reference model",
    "C15": "deterministic simulation: simulator-owned eviction schedule + structural invariants after every event",
    "C08": "deterministic simulation: eviction schedules + collision-forcing hash seam + exact count models",
    "C14": "deterministic simulation: counter oracle after every step across schedules, restarts, reopen",
    "C05": "deterministic simulation: seeded restart faults (export->load over every channel, cwd, stale destinations)",
    "C01": "deterministic simulation: seeded histories with restart / reopen / union faults and hash-strategy seam",
    "C04": "deterministic simulation: seeded histories vs set model under a deterministic step budget (bounded termination)",
    "C06": "deterministic simulation of two parties over the storage channel (independent C reader + reference writer)",
    "C19": "deterministic simulation: read-only batches incl. failing export sinks; state compared after each call",
    "C12": "deterministic simulation: seeded two-stream histories vs single-stream reference; operand aliasing, prior-life and per-object hash-closure faults",
    "C13": "deterministic simulation: seeded operand pairs in drawn relations vs AND/popcount oracle; prior-life (id() reuse) and per-object hash-closure faults",
    "C16": "deterministic simulation: seeded limit-crossing histories vs big-int cell model; restart faults, live second operand",
    "C09": "deterministic simulation: seeded histories with restart faults vs growth model read from the exported stream",
}

NA = [
    {"property_id": "C07", "reason": "pure function from (est_elements, rate) / (confidence, error) / (error, bucket size) to "
     "integers: no state, schedule, storage, fault or step bound for a simulator to own (DESIGN 5); its arithmetic is "
     "only exercised indirectly by the independent geometry derivation in the C06 reader"},
    {"property_id": "C18", "reason": "pure function of (key, depth, seed): nothing to simulate; input generation would be "
     "property-based testing relabelled (DESIGN 5)"},
    {"property_id": "C20", "reason": "in-memory leaf utility with no randomness, I/O, injected dependency or data-dependent "
     "loop; a history of index writes against a list is input generation, not simulation (DESIGN 5)"},
]


def main():
    checks = []
    for p in CLAIMED:
        spec = load_prop(p)
        text, ref = TEXT[p]
        checks.append({
            "property_id": p,
            "quick_cmd": f"./check {p} --tier quick",
            "thorough_cmd": f"./check {p} --tier thorough",
            "evidence_file": f"/verif/evidence/{p}.json",
            "replay_cmd_template": f"./check {p} --replay {{path}}",
            "engine": "dsim",
            "level_claimed": {"category": spec.level, "text": text, "design_ref": "DESIGN.md section " + ref},
            "level_note": "; ".join(spec.assumptions),
            "technique": TECH.get(p, "deterministic simulation: seeded histories vs reference model, hash-strategy seam"
                                     + (" (thin: object-level events only - second live object, prior-life object, "
                                        "query-mode round trip; no storage or schedule fault applies)"
                                        if "THIN" in spec.rule else "")),
        })
    man = {
        "version": 1,
        "setup_cmd": "mkdir -p build evidence replays && gcc -O2 -o build/reader refc/reader.c -lm && "
                     "/venv/bin/python -m compileall -q dsim refpy tools >/dev/null",
        "hooks": {
            "guard": "PYPROBABLES_VERIF",
            "enable": "no hook exists in /repo: every seam (module attribute `random` of the cuckoo modules, hash_function=, "
                      "file/path arguments, cwd, sys.monitoring line events) is reachable from outside; checks put "
                      "$VERIF_REPO (default /repo) first on sys.path and assert probables is imported from there",
            "baseline_off_cmd": "cd /repo && /venv/bin/python -m pytest -ra -q -p no:cacheprovider --timeout=900 "
                                "--continue-on-collection-errors",
            "source_commits": [],
            "add_only": True,
        },
        "engines": [{
            "name": "dsim", "path": "/verif/dsim", "serves_properties": CLAIMED,
            "kind_free_text": "deterministic simulator written for this task: SplitMix64 PRNG from VERIF_SEED, scenario "
                              "worlds with reference models, seams (SimRandom, hash strategies, SimFile, scratch fs + cwd, "
                              "sys.monitoring line events for step budgets and crash points), fork pool, ddmin shrinker, "
                              "JSON replay files, determinism self-test in a fresh interpreter",
        }],
        "checks": checks,
        "not_applicable": NA,
        "notes": "See DESIGN.md. known_findings.json lists open findings (suppressed exactly, KNOWN-FINDING lines) and "
                 "fixed ones (fix: commits in /repo). Exit codes: 0 held, 1 VIOLATION, 2 harness error.",
    }
    with open(os.path.join(VERIF, "MANIFEST.json"), "w") as f:
        json.dump(man, f, indent=1)
    print("wrote MANIFEST.json with", len(checks), "checks")


if __name__ == "__main__":
    main()
