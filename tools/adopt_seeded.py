#!/venv/bin/python
"""Copy agent-written seeded changes into /verif/seeded/<id>/ and record what was run against them."""
import json
import os
import shutil
import subprocess
import sys

VERIF = os.path.dirname(os.path.dirname(os.path.abspath(__file__)))
EXTRA = {"V-cms-1": ["C16"], "W-cms-3": ["C16"], "Z-cms-3": ["C06"], "Z-qf-2": ["C19", "C14"], "Y-cbexp-3": ["C16", "C08"], "Y-bloom-2": ["C05"], "X-bloom-1": ["C11", "C19", "C01"], "X-bloom-3": ["C01", "C05"], "X-cms-2": ["C05"], "X-cuckoo-1": ["C15", "C06"],
         "X-util-1": ["C11"], "X-util-2": ["C01"], "C02-d": ["C02", "C05"], "C06-d": ["C06", "C05"], "C10-d": ["C10", "C05"], "C17-c": ["C17", "C19"],
         "C01-b": ["C01", "C13"], "C06-a": ["C06", "C16"], "C08-a": ["C08", "C03"], "C14-a": ["C14"], "C15-a": ["C15", "C14"],
         "C02-b": ["C02", "C17"], "C11-b": ["C11", "C14"],
         "C05-x": ["C05", "C11"], "C06-x": ["C06", "C10"], "C14-y": ["C14", "C19", "C11"],
         "C01-x": ["C01", "C13"], "C01-y": ["C01", "C05"], "C16-x": ["C16", "C12"],
         "C03-q": ["C03", "C15"], "C14-p": ["C14", "C11"]}

for src in sys.argv[1:]:
    sid = os.path.basename(src.rstrip("/"))
    if not all(os.path.exists(os.path.join(src, f)) for f in ("patch.diff", "demo.py", "meta.json")):
        print("incomplete", src)
        continue
    dst = os.path.join(VERIF, "seeded", sid)
    os.makedirs(dst, exist_ok=True)
    for f in ("patch.diff", "demo.py", "meta.json"):
        if os.path.realpath(os.path.join(src, f)) != os.path.realpath(os.path.join(dst, f)):
            shutil.copy(os.path.join(src, f), os.path.join(dst, f))
    meta = json.load(open(os.path.join(dst, "meta.json")))
    props = EXTRA.get(sid, [meta["property"]])
    prev = (meta.get("verification") or {}).get("caught_by")
    if prev and os.path.realpath(src) == os.path.realpath(dst):
        props = prev  # re-verification of an adopted change: the checks recorded as catching it
    p = subprocess.run([os.path.join(VERIF, "tools", "seedtest.py"), dst, "--props=" + ",".join(props)],
                       capture_output=True, text=True)
    rec = json.loads(p.stdout.strip().splitlines()[-1])
    meta["verification"] = {
        "confirmed_by_me": {"tests_with_patch": rec.get("tests_with_patch"), "demo_on_clean_checkout": rec.get("demo_clean"),
                            "demo_with_patch": rec.get("demo_patched")},
        "checks_run": rec.get("ran"), "caught": rec.get("caught"),
        "caught_by": [r["cmd"].split('./check ')[1].split()[0] for r in rec.get("ran", []) if r["exit"] == 1 and r["violations"]],
        "how": "scratch git worktree of /repo HEAD under /dev/shm, git apply patch.diff, pytest, demo.py, then "
               "VERIF_REPO=<worktree> DSIM_OUT=<scratch> ./check <prop> --tier quick; worktree removed afterwards",
    }
    json.dump(meta, open(os.path.join(dst, "meta.json"), "w"), indent=1)
    print(sid, "caught" if rec.get("caught") else "MISSED", meta["verification"]["caught_by"], rec.get("tests_with_patch"),
          rec.get("demo_clean"), rec.get("demo_patched"), rec.get("error", ""))
