#!/venv/bin/python
"""Run the checks against seeded changes (patch files) in scratch copies of /repo.

usage: tools/seedtest.py <dir-with-patch.diff> [...]   [--props C03,C15] [--tier quick] [--keep]
For each seeded change: scratch worktree of /repo HEAD under /dev/shm, apply patch, run the pinned
test-suite (must pass), run demo.py (must FAIL with the patch, PASS without), run the named checks with
VERIF_REPO=<scratch> and DSIM_OUT=<scratch-out> (so /verif/evidence is not touched), record what was caught.
Scratch copies are removed afterwards.
"""
import json
import os
import shutil
import subprocess
import sys
import time

VERIF = os.path.dirname(os.path.dirname(os.path.abspath(__file__)))


def sh(cmd, cwd=None, env=None, timeout=1800):
    p = subprocess.run(cmd, shell=True, cwd=cwd, env=env, capture_output=True, text=True, timeout=timeout)
    return p.returncode, p.stdout + p.stderr


def main():
    args = [a for a in sys.argv[1:] if not a.startswith("--")]
    opts = {a.split("=")[0]: (a.split("=") + [""])[1] for a in sys.argv[1:] if a.startswith("--")}
    tier = opts.get("--tier", "quick")
    results = []
    for d in args:
        d = os.path.abspath(d)
        meta = json.load(open(os.path.join(d, "meta.json"))) if os.path.exists(os.path.join(d, "meta.json")) else {}
        sid = meta.get("id") or os.path.basename(d)
        props = opts.get("--props", "").split(",") if opts.get("--props") else [meta.get("property")]
        wt = f"/dev/shm/seedwt-{sid}-{os.getpid()}"
        out = f"/dev/shm/seedout-{sid}-{os.getpid()}"
        rec = {"id": sid, "property": meta.get("property"), "ran": []}
        try:
            rc, o = sh(f"git -C /repo worktree add -q --detach {wt} HEAD")
            if rc:
                raise RuntimeError(o)
            demo = os.path.join(d, "demo.py")
            has_demo = os.path.exists(demo)
            if has_demo:
                rc, o = sh(f"/venv/bin/python {demo}", cwd=wt)
                rec["demo_clean"] = "PASS" if rc == 0 else f"exit {rc}"
            rc, o = sh(f"git apply {os.path.join(d, 'patch.diff')}", cwd=wt)
            if rc:
                raise RuntimeError("patch does not apply: " + o)
            rc, o = sh("/venv/bin/python -m pytest -q -p no:cacheprovider -x tests 2>&1 | tail -1", cwd=wt)
            rec["tests_with_patch"] = o.strip()
            if has_demo:
                rc, o = sh(f"/venv/bin/python {demo}", cwd=wt)
                rec["demo_patched"] = "FAIL" if rc == 1 else f"exit {rc}"
            env = dict(os.environ, VERIF_REPO=wt, DSIM_OUT=out)
            for p in props:
                t0 = time.time()
                rc, o = sh(f"{VERIF}/check {p} --tier {tier}", cwd=VERIF, env=env)
                viol = [l for l in o.splitlines() if l.startswith("VIOLATION")]
                kinds = [l.strip() for l in o.splitlines() if l.strip().startswith("violation kind=")]
                rec["ran"].append({"cmd": f"VERIF_REPO=<patched copy> ./check {p} --tier {tier}", "exit": rc,
                                   "violations": len(viol), "kinds": [k[:200] for k in kinds[:4]],
                                   "wall_s": round(time.time() - t0, 1),
                                   "tail": o.strip().splitlines()[-3:] if rc not in (0, 1) else []})
            rec["caught"] = any(r["exit"] == 1 and r["violations"] for r in rec["ran"])
        except Exception as e:
            rec["error"] = str(e)[:500]
        finally:
            sh(f"git -C /repo worktree remove --force {wt}")
            shutil.rmtree(wt, ignore_errors=True)
            shutil.rmtree(out, ignore_errors=True)
        results.append(rec)
        print(json.dumps(rec))
        sys.stdout.flush()
    return 0


if __name__ == "__main__":
    sys.exit(main())
