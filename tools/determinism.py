#!/venv/bin/python
"""Determinism proof on a large sample: every run index 0..N-1 of each property is executed twice, in fresh
interpreters with different PYTHONHASHSEED values and at two different worker counts (4 and 16 processes), and the
event-log digests are compared.  usage: tools/determinism.py [N] [PROP ...]"""
import json
import os
import subprocess
import sys
from concurrent.futures import ThreadPoolExecutor

VERIF = os.path.dirname(os.path.dirname(os.path.abspath(__file__)))


def digests(prop, idx, hashseed):
    env = dict(os.environ, PYTHONHASHSEED=str(hashseed), DSIM_REEXEC="1")
    p = subprocess.run([os.path.join(VERIF, "check"), prop, "--digests", ",".join(map(str, idx))], env=env,
                       capture_output=True, text=True, timeout=3600)
    if p.returncode != 0:
        raise RuntimeError(p.stderr[-1500:])
    return json.loads(p.stdout.strip().splitlines()[-1])


def sweep(prop, n, workers, base_hashseed):
    chunks = [list(range(i, n, workers)) for i in range(workers)]
    out = {}
    with ThreadPoolExecutor(max_workers=workers) as ex:
        for d in ex.map(lambda a: digests(prop, a[1], base_hashseed + a[0]), list(enumerate(chunks))):
            out.update(d)
    return out


def main():
    n = int(sys.argv[1]) if len(sys.argv) > 1 else 400
    props = sys.argv[2:] or [c["property_id"] for c in json.load(open(os.path.join(VERIF, "MANIFEST.json")))["checks"]]
    bad = 0
    for p in props:
        a = sweep(p, n, 4, 100)
        b = sweep(p, n, 16, 9000)
        mism = [i for i in a if a[i] != b.get(i)]
        print(f"{p}: {n} run indices x 2 executions (4 procs / 16 procs, {4 + 16} different PYTHONHASHSEEDs): "
              f"{len(mism)} digest mismatches, {len(set(a.values()))} distinct digests")
        sys.stdout.flush()
        bad += len(mism)
    return 1 if bad else 0


if __name__ == "__main__":
    sys.exit(main())
