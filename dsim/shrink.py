"""Minimisation of a failing run: ddmin over steps, per-step simplification,
configuration descent.  Predicate: same property, same violation kind (and, if
the original was NOT a known finding, the shrunk one must not become one)."""
import copy
import time


def minimise(spec, rec, kind, scratch, budget_s=60, max_replays=3000, known=None):
    from .runner import match_known, replay_once, scenario_by_name

    t0 = time.time()
    stats = {"replays": 0, "accepted": 0}
    cls = scenario_by_name(spec, rec["scenario"])

    def fails(cand):
        if stats["replays"] >= max_replays or time.time() - t0 > budget_s:
            return None
        stats["replays"] += 1
        try:
            res = replay_once(spec, cand, scratch)
        except Exception:
            return None
        if res.violation is None or res.violation["kind"] != kind:
            return None
        if known is not None and match_known(known, res.violation) is not None:
            return None
        return res

    cur = copy.deepcopy(rec)
    res0 = fails(cur)
    if res0 is None:
        return rec, stats
    # steps past the violating one are dead weight; steps as executed carry explicit tapes
    cur["steps"] = res0.steps

    def try_accept(cand):
        r = fails(cand)
        if r is not None:
            cand["steps"] = r.steps  # normalised (explicit tapes, truncated at the violation)
            stats["accepted"] += 1
            return True
        return False

    # ---- earlier runs of the same process (only present when the violation needs their left-over state)
    if cur.get("prefix_runs"):
        i = 0
        while i < len(cur["prefix_runs"]):
            cand = dict(cur)
            cand["prefix_runs"] = cur["prefix_runs"][:i] + cur["prefix_runs"][i + 1:]
            if try_accept(cand):
                cur = cand
            else:
                i += 1
        for j, pre in enumerate(list(cur["prefix_runs"])):
            for keep in (0, len(pre["steps"]) // 2):
                if len(pre["steps"]) > keep:
                    cand = dict(cur)
                    cand["prefix_runs"] = list(cur["prefix_runs"])
                    cand["prefix_runs"][j] = dict(pre, steps=pre["steps"][:keep])
                    if try_accept(cand):
                        cur = cand
                        break

    # ---- ddmin over steps
    n = 2
    while len(cur["steps"]) >= 2:
        steps = cur["steps"]
        size = max(1, len(steps) // n)
        reduced = False
        i = 0
        while i < len(steps):
            cand = dict(cur)
            cand["steps"] = steps[:i] + steps[i + size:]
            if cand["steps"] != steps and try_accept(cand):
                cur = cand
                steps = cur["steps"]
                n = max(n - 1, 2)
                reduced = True
            else:
                i += size
        if not reduced:
            if size == 1:
                break
            n = min(n * 2, len(steps))
        if time.time() - t0 > budget_s:
            break

    # ---- per-step simplification
    scn = cls.__new__(cls)
    changed = True
    rounds = 0
    while changed and rounds < 4 and time.time() - t0 < budget_s:
        changed = False
        rounds += 1
        for i in range(len(cur["steps"])):
            if i >= len(cur["steps"]):
                break
            for simpler in _step_variants(scn, cur["steps"][i]):
                cand = dict(cur)
                cand["steps"] = cur["steps"][:i] + [simpler] + cur["steps"][i + 1:]
                if try_accept(cand):
                    cur = cand
                    changed = True
                    break
        # ---- configuration descent
        for simpler in _cfg_variants(scn, cur["config"]):
            cand = dict(cur)
            cand["config"] = simpler
            if try_accept(cand):
                cur = cand
                changed = True
                break
    stats["seconds"] = round(time.time() - t0, 2)
    return cur, stats


def _step_variants(scn, step):
    # generic: shorter / zeroed decision tapes, fewer fan-out branches
    sched = step.get("sched")
    if isinstance(sched, dict) and sched.get("tape"):
        tape = sched["tape"]
        s = copy.deepcopy(step)
        s["sched"] = {"tape": [], "strat": "zero"}
        yield s
        if any(tape):
            s = copy.deepcopy(step)
            s["sched"] = {"tape": [0] * len(tape), "strat": "zero"}
            yield s
        s = copy.deepcopy(step)
        s["sched"] = {"tape": tape[: len(tape) // 2], "strat": "zero"}
        yield s
    if step.get("fan"):
        s = copy.deepcopy(step)
        s["fan"] = []
        yield s
        if len(step["fan"]) > 1:
            for j in range(len(step["fan"])):
                s = copy.deepcopy(step)
                s["fan"] = [step["fan"][j]]
                yield s
    try:
        yield from scn.simplify_step(step)
    except Exception:
        return


def _cfg_variants(scn, cfg):
    try:
        yield from scn.simplify_config(cfg)
    except Exception:
        return
