"""Seams the simulator owns: internal randomness, hash strategies, sinks, scratch
storage + cwd, and library line events (step budget / crash points)."""
import hashlib
import io
import errno
import os
import random as _real_random
import shutil
import sys

from .core import BudgetExceeded, HarnessError, Rng, SimKill, mix, repo_path

# --------------------------------------------------------------------------- S1


class Sched:
    """Answers for the library's internal random draws during ONE operation.

    spec = {"tape": [i0, i1, ...], "strat": name, "seed": int}
    The explicit tape is consumed first (entries reduced mod the number of
    options); afterwards the named strategy answers.  Every answer is recorded in
    .consumed so that a failing run can be rewritten with a fully explicit tape.
    """

    STRATS = ("uniform", "first", "last", "alt", "zero")

    def __init__(self, spec=None):
        spec = spec or {}
        self.tape = list(spec.get("tape") or [])
        self.pos = 0
        self.strat = spec.get("strat", "zero")
        self.rng = Rng(spec.get("seed", 0))
        self.consumed = []
        self.arity = []  # number of options at each decision (for exhaustive enumeration of tapes)
        self.flip = 0

    def pick(self, n):
        if n <= 0:
            raise HarnessError("Sched.pick with no options")
        if self.pos < len(self.tape):
            v = self.tape[self.pos] % n
            self.pos += 1
        else:
            s = self.strat
            if s == "uniform":
                v = self.rng.below(n)
            elif s == "first" or s == "zero":
                v = 0
            elif s == "last":
                v = n - 1
            elif s == "alt":
                v = 0 if self.flip == 0 else n - 1
                self.flip ^= 1
            else:
                raise HarnessError(f"unknown strategy {s}")
        self.consumed.append(v)
        self.arity.append(n)
        return v


def next_tape(consumed, arity):
    """Odometer step over the decision tree: the lexicographically next tape after `consumed`, or None."""
    i = len(consumed) - 1
    while i >= 0 and consumed[i] + 1 >= arity[i]:
        i -= 1
    if i < 0:
        return None
    return list(consumed[:i]) + [consumed[i] + 1]


class SimRandom:
    """Stands in for the `random` module inside both cuckoo modules."""

    def __init__(self):
        self.sched = None
        self.calls = 0

    def arm(self, sched):
        self.sched = sched

    def disarm(self):
        self.sched = None

    def choice(self, seq):
        self.calls += 1
        if self.sched is None:
            return seq[0]
        return seq[self.sched.pick(len(seq))]

    def randint(self, a, b):
        self.calls += 1
        if self.sched is None:
            return a
        return a + self.sched.pick(b - a + 1)

    def randrange(self, a, b=None):
        if b is None:
            a, b = 0, a
        return self.randint(a, b - 1)

    def random(self):
        return self.randint(0, (1 << 30) - 1) / float(1 << 30)

    def __getattr__(self, name):  # anything else: the real (re-seeded) module
        return getattr(_real_random, name)


_SIMRANDOM = None


def install_simrandom():
    """Patch the module attribute `random` of both cuckoo modules (idempotent)."""
    global _SIMRANDOM
    if _SIMRANDOM is None:
        _SIMRANDOM = SimRandom()
    import probables.cuckoo.cuckoo as c1
    import probables.cuckoo.countingcuckoo as c2

    for m in (c1, c2):
        if hasattr(m, "random"):
            m.random = _SIMRANDOM
        # a refactor to `from random import choice, randint` is caught as well
        for nm in ("choice", "randint", "randrange"):
            if hasattr(m, nm) and getattr(m, nm) is getattr(_real_random, nm):
                setattr(m, nm, getattr(_SIMRANDOM, nm))
    return _SIMRANDOM


def reseed_global(seed):
    _real_random.seed(seed & 0xFFFFFFFF)


# --------------------------------------------------------------------------- keys

_NONASCII = ["ключ", "鍵", "clé", "schlüssel", "🔑"]


SURROGATE_OK = False  # set by a scenario whose hash strategy works on code points (library default FNV-1a)


def key_of(k, ascii_only=False):
    """Key universe: index -> str (ASCII / non-ASCII) or bytes."""
    if k == 11 and SURROGATE_OK and not ascii_only:
        return "undecodable-\udc80\udcff"  # what os.fsdecode gives for a non-UTF-8 file name: valid str, not encodable
    if k == 1:
        return ""  # the empty text key and (k == 6) the empty bytes key are keys like any other
    if k == 6:
        return b""
    m = k % 5
    if m == 0:
        return b"k%d" % k
    if m == 3 and not ascii_only:
        return f"{_NONASCII[(k // 5) % len(_NONASCII)]}{k}"
    if m == 4:
        return bytes([k & 0xFF, (k * 7 + 1) & 0xFF, 0x00, 0xFF]) if not ascii_only else b"b%d" % k
    return f"key{k}"


def kbytes(key):
    return key.encode("utf-8") if isinstance(key, str) else bytes(key)


# --------------------------------------------------------------------------- S6

LIST_HASH_KINDS = ("fnv", "md5", "sha256", "dec_bytes", "dec_int", "sim", "sim_sq")


def make_list_hash(kind, seed=0, squeeze=0):
    """Hash strategy hf(key, depth) -> list[int] for Bloom / count-min structures.
    Returns (callable or None for the library default, name)."""
    from probables.hashes import default_md5, default_sha256, hash_with_depth_bytes, hash_with_depth_int

    if kind == "fnv":
        return None
    if kind == "md5":
        return default_md5
    if kind == "sha256":
        return default_sha256
    salt = seed.to_bytes(8, "little")
    if kind == "dec_bytes":

        @hash_with_depth_bytes
        def h_bytes(key, idx=0):
            return hashlib.blake2b(key, digest_size=16, key=salt).digest()

        return h_bytes
    if kind == "dec_int":

        @hash_with_depth_int
        def h_int(key, idx=0):
            return int.from_bytes(hashlib.blake2b(kbytes(key), digest_size=8, key=salt).digest(), "little")

        return h_int
    if kind in ("sim", "sim_sq"):
        rng_range = squeeze if kind == "sim_sq" else 0

        def h_sim(key, depth=1):
            kb = kbytes(key)
            out = []
            for i in range(depth):
                v = int.from_bytes(
                    hashlib.blake2b(kb, digest_size=8, key=salt, salt=i.to_bytes(8, "little")).digest(), "little"
                )
                out.append(v % rng_range if rng_range else v)
            return out

        return h_sim
    raise HarnessError(f"unknown hash kind {kind}")


def make_single_hash(kind, seed=0, bits=64, signed=False):
    """hf(key[, seed]) -> int for cuckoo (64-bit) / quotient (32-bit) filters.  signed: values in
    [-2^(bits-1), 2^(bits-1)) like Python's own hash() - a legal int-valued strategy."""
    if kind == "default":
        return None
    salt = seed.to_bytes(8, "little")
    mask = (1 << bits) - 1

    nbytes = 16 if bits > 64 else 8

    def h1(key, s=0):
        v = int.from_bytes(
            hashlib.blake2b(kbytes(key), digest_size=nbytes, key=salt, salt=int(s).to_bytes(8, "little")).digest(), "little"
        )
        v &= mask
        if signed and v >> (bits - 1):
            v -= 1 << bits
        return v

    return h1


# --------------------------------------------------------------------------- S2


class SimFile(io.RawIOBase):
    """A sink the simulator owns: records chunks, can fail the k-th write."""

    def __init__(self, fail_at=None, err=errno.ENOSPC):
        super().__init__()
        self.chunks = []
        self.fail_at = fail_at
        self.err = err
        self.n_writes = 0
        self.failed = False

    def writable(self):
        return True

    def write(self, b):
        self.n_writes += 1
        if self.fail_at is not None and self.n_writes == self.fail_at:
            self.failed = True
            raise OSError(self.err, os.strerror(self.err))
        b = bytes(b)
        self.chunks.append(b)
        return len(b)

    def getvalue(self):
        return b"".join(self.chunks)


# --------------------------------------------------------------------------- S3-S5


class FsPath:
    """A path-like object that is neither str nor pathlib.Path (os.PathLike protocol only)."""

    def __init__(self, p):
        self._p = p

    def __fspath__(self):
        return self._p

    def __repr__(self):
        return f"FsPath({self._p!r})"


class FileClock:
    """Simulated file-timestamp clock.  While frozen, every stat result the process sees carries one and the same
    modification time: the limit case of a coarse-granularity (1 s ext3, 2 s FAT, tick-granular tmpfs) or stepped-back
    wall clock, under which two writes to two files cannot be told apart by their timestamps."""

    FROZEN = 1_000_000_000
    _SEQ = ("st_mode", "st_ino", "st_dev", "st_nlink", "st_uid", "st_gid", "st_size")

    def __init__(self):
        self.real = None
        self.calls = 0

    def _coarse(self, st):
        seq = list(st)[:10]
        seq[8] = self.FROZEN
        extra = {k: getattr(st, k) for k in dir(st) if k.startswith("st_") and k not in self._SEQ}
        extra["st_mtime"] = float(self.FROZEN)
        extra["st_mtime_ns"] = self.FROZEN * 10**9
        return os.stat_result(tuple(seq), extra)

    def freeze(self):
        if self.real is not None:
            return
        self.real = (os.stat, os.lstat, os.fstat)
        r_stat, r_lstat, r_fstat = self.real
        clock = self

        def stat(path, *a, **kw):
            clock.calls += 1
            return clock._coarse(r_stat(path, *a, **kw))

        def lstat(path, *a, **kw):
            clock.calls += 1
            return clock._coarse(r_lstat(path, *a, **kw))

        def fstat(fd):
            clock.calls += 1
            return clock._coarse(r_fstat(fd))

        os.stat, os.lstat, os.fstat = stat, lstat, fstat

    def thaw(self):
        if self.real is not None:
            os.stat, os.lstat, os.fstat = self.real
            self.real = None


class Scratch:
    """Per-run scratch tree R/{a,b,a/sub} on tmpfs; owns the process cwd."""

    DIRS = ("a", "b", "a/sub")

    def __init__(self, base):
        self.base = base
        self.root = os.path.join(base, "R")
        if os.path.exists(self.root):
            shutil.rmtree(self.root)
        for d in self.DIRS:
            os.makedirs(os.path.join(self.root, d))
        self.cwd = "a"
        self._home = os.environ.get("HOME")
        self.clock = FileClock()
        os.chdir(self.dir("a"))

    def dir(self, d):
        return os.path.join(self.root, d)

    def chdir(self, d):
        os.chdir(self.dir(d))
        self.cwd = d

    def abspath(self, d, name):
        return os.path.join(self.root, d, name)

    def spell(self, d, name, style):
        """Spell path R/d/name as absolute str, relative-to-cwd str, or pathlib.Path."""
        ab = self.abspath(d, name)
        if style == "abs":
            return ab
        if style == "rel":
            return os.path.relpath(ab, self.dir(self.cwd))
        if style == "path":
            from pathlib import Path

            return Path(ab)
        if style == "relpath":
            from pathlib import Path

            return Path(os.path.relpath(ab, self.dir(self.cwd)))
        if style == "dirlink":
            # <root>/dl-<d> -> <root>/a/sub ;  spell the file as  <root>/dl/../../<d>/<name>  ('..' after a directory link)
            dl = os.path.join(self.root, "dlink")
            if not os.path.lexists(dl):
                os.symlink(self.dir("a/sub"), dl)
            return os.path.join(dl, "..", "..", d, name)
        if style == "fspath":
            return FsPath(ab)
        if style == "dirlinkpath":
            from pathlib import Path

            return Path(self.spell(d, name, "dirlink"))
        if style == "home":
            # '~' refers to $HOME, which the scenario points at the scratch root for the duration of the run
            os.environ["HOME"] = self.root
            return os.path.join("~", d, name)
        if style == "link":
            # a symbolic link (in another directory of the tree) that points at the file
            self.n_links = getattr(self, "n_links", 0) + 1
            ln = os.path.join(self.root, "b" if d != "b" else "a", f"link{self.n_links}-{name}")
            if os.path.lexists(ln):
                os.unlink(ln)
            os.symlink(ab, ln)
            return ln
        raise HarnessError(style)

    def cleanup(self):
        self.clock.thaw()
        if self._home is not None:
            os.environ["HOME"] = self._home
        try:
            os.chdir(self.base)
        except OSError:
            os.chdir("/")
        shutil.rmtree(self.root, ignore_errors=True)


def worker_scratch_base():
    root = "/dev/shm" if os.path.isdir("/dev/shm") and os.access("/dev/shm", os.W_OK) else None
    if root is None:
        import tempfile

        root = tempfile.gettempdir()
    p = os.path.join(root, f"dsim-{os.getpid()}")
    os.makedirs(p, exist_ok=True)
    return p


# --------------------------------------------------------------------------- S7 / S4 line events


class LineSeam:
    """Library line events via sys.monitoring (3.12): step budget and crash points."""

    TOOL = 4

    def __init__(self):
        self.mon = sys.monitoring
        self.prefix = os.path.join(os.path.realpath(repo_path()), "probables") + os.sep
        try:
            self.mon.use_tool_id(self.TOOL, "dsim")
        except ValueError:
            pass
        self.mon.register_callback(self.TOOL, self.mon.events.LINE, self._on_line)
        self.mon.register_callback(self.TOOL, self.mon.events.INSTRUCTION, self._on_instr)
        self.granularity = "line"  # or "instr": every byte-code instruction of library code is an event
        self.n = 0
        self.budget = 1 << 62
        self.hook = None
        self.kill_at = None
        self.active = False
        self.enabled = False
        self.max_seen = 0

    def _on_line(self, code, line):
        if not code.co_filename.startswith(self.prefix):
            return self.mon.DISABLE
        if not self.active:
            return None
        self.n += 1
        if self.hook is not None:
            self.hook(self.n, code, line)
        if self.kill_at is not None and self.n == self.kill_at:
            self.active = False
            raise SimKill(f"kill@{self.n} {os.path.basename(code.co_filename)}:{line}")
        if self.n > self.budget:
            self.active = False
            raise BudgetExceeded(f"{self.n} library line events")
        return None

    def _on_instr(self, code, offset):
        if not code.co_filename.startswith(self.prefix):
            return self.mon.DISABLE
        if not self.active:
            return None
        return self._on_line(code, -offset - 1)

    def set_granularity(self, g):
        if g != self.granularity:
            was = self.enabled
            self.disable()
            self.granularity = g
            if was:
                self.enable()

    def enable(self):
        """Switch line events on for this process (expensive: re-instruments code objects); scenarios that
        make many budgeted calls enable once in setup() and disable in teardown()."""
        if not self.enabled:
            ev = self.mon.events.LINE if self.granularity == "line" else self.mon.events.INSTRUCTION
            self.mon.set_events(self.TOOL, ev)
            self.enabled = True

    def disable(self):
        if self.enabled:
            self.mon.set_events(self.TOOL, 0)
            self.enabled = False

    def run(self, fn, budget=None, hook=None, kill_at=None):
        """Run fn() with library line events delivered.  Returns fn()'s value; .n holds the count."""
        self.n = 0
        self.budget = budget if budget is not None else (1 << 62)
        self.hook = hook
        self.kill_at = kill_at
        was = self.enabled
        self.enable()
        self.active = True
        try:
            return fn()
        finally:
            self.active = False
            if not was:
                self.disable()
            if self.n > self.max_seen:
                self.max_seen = self.n


_LINESEAM = None


def line_seam():
    global _LINESEAM
    if _LINESEAM is None:
        _LINESEAM = LineSeam()
    return _LINESEAM
