"""World K: CuckooFilter / CountingCuckooFilter under a simulator-owned eviction
schedule (S1), with a fingerprint-level reference model.

Model: plain -> set of fingerprints; counting -> {fingerprint: outstanding count}.
fingerprint = hash(key) & mask, computed by the harness from the hash it supplied
(or from its own FNV-1a when the library default is in use).
"""
import copy
import os

from ..core import Scenario, Violation, HarnessError, canon
from .. import seams

MAX_SWAPS = (1, 2, 3, 5, 10, 50, 600)


def own_fnv1a64(key, seed=0):
    h = (14695981039346656037 + 31 * seed) & 0xFFFFFFFFFFFFFFFF
    data = list(key) if not isinstance(key, str) else [ord(c) for c in key]
    for b in data:
        h ^= b
        h = (h * 1099511628211) & 0xFFFFFFFFFFFFFFFF
    return h


class CuckooWorld(Scenario):
    prop = "C00"
    max_steps = 40
    allow_restart = False
    allow_huge = False  # tables above 65536 slots (export/load work in blocks): C05 only, they are slow
    fanout_cap = 6  # per run
    counting_choices = (False, True)

    # ------------------------------------------------------------------ generation
    def gen_config(self, rng):
        counting = rng.choice(self.counting_choices)
        cfg = {
            "counting": counting,
            "capacity": rng.weighted([(3, 1), (4, 2), (4, 3), (3, 4), (2, 5), (2, 6), (1, 8), (1, 13)]),
            "bucket_size": rng.weighted([(12, 1), (16, 2), (8, 3), (8, 4), (2, 9), (2, 12), (1, 17), (1, 20)]),
            "max_swaps": rng.choice(MAX_SWAPS),
            "finger_size": rng.weighted([(3, 1), (2, 2), (3, 4)]),
            "auto_expand": rng.chance(1, 2),
            # rate 1 ("expand" into a table of the same size) is legal and makes failed expansions frequent
            "expansion_rate": rng.weighted([(4, 2), (1, 3), (1, 1)]),
            "hash": rng.weighted([(2, "default"), (4, "sim"), (1, "wide"), (1, "signed")]),
            "hseed": rng.below(1 << 16),
            "universe": rng.choice((6, 10, 16, 30, 60)),
            "strat": rng.choice(seams.Sched.STRATS[:4]),
            "fanout": rng.chance(2, 3),
            # complete enumeration of every resolution of the random choices of a kicking insertion (when the
            # decision tree is small enough), instead of a sample of alternative tapes
            "fan_all": rng.chance(1, 3),
            "fault_free": rng.chance(1, 8),
            "steps": rng.between(5, self.max_steps),
            # sized by error rate (init_error_rate / load_error_rate / frombytes(error_rate=)) instead of by bytes
            "error_rate": rng.choice((0.2, 0.05, 0.01, 0.001, 1e-05)) if rng.chance(1, 4) else None,
        }
        if os.environ.get("DSIM_TIER") == "thorough" and rng.chance(1, 4):
            cfg.update({"capacity": rng.choice((16, 24, 40)), "universe": rng.choice((100, 200, 400)),
                        "steps": rng.between(60, 160)})
        if self.allow_huge and rng.chance(1, 150 if os.environ.get("DSIM_TIER") != "thorough" else 60):
            cfg.update({"capacity": rng.choice((17000, 22000)), "bucket_size": 4, "universe": 400, "steps": rng.between(20, 40),
                        "fanout": False, "fan_all": False, "huge": True})
        if cfg["bucket_size"] >= 17:
            # wide buckets are only interesting once they are full: a tiny table and enough distinct keys
            cfg.update({"capacity": rng.choice((1, 2)), "universe": 60, "steps": self.max_steps,
                        "max_swaps": rng.choice((1, 2, 5, 50))})
        if rng.chance(1, 30):
            # very long eviction chains (beyond the interpreter's default recursion limit and any fixed-size log);
            # a small table so that chains are actually exhausted
            cfg.update({"max_swaps": rng.choice((1100, 1300, 2500)), "capacity": rng.choice((1, 2, 3)),
                        "bucket_size": rng.choice((1, 2)), "fanout": False, "fan_all": False})
        if cfg["fault_free"]:
            # fault-free configuration: a table large enough that no insertion needs a kick
            cfg["capacity"] = 64
            cfg["bucket_size"] = 4
            cfg["fanout"] = False
            cfg["universe"] = min(cfg["universe"], 30)
        return cfg

    def gen_step(self, rng):
        cfg = self.cfg
        if self.n_gen >= cfg["steps"]:
            return None
        self.n_gen += 1
        present = sorted(self.key_in_model())
        r = rng.below(100)
        if r < 62 or not present:
            k = rng.below(cfg["universe"])
            if self.counting and present and rng.chance(1, 3):
                k = rng.choice(present)
            st = {"op": "add", "k": k, "sched": self._gen_sched(rng)}
            if cfg["fanout"] and self.fans_left > 0:
                st["fan"] = [self._gen_sched(rng, alt=i) for i in range(rng.between(1, 4))]
            return st
        if r < 84:
            if rng.chance(4, 5):
                k = rng.choice(present)
            else:
                k = rng.below(cfg["universe"])
            return {"op": "remove", "k": k}
        if r < 92 and self.f.capacity * cfg["expansion_rate"] <= 128:
            return {"op": "expand", "sched": self._gen_sched(rng)}
        if self.allow_restart:
            return {"op": "restart", "chan": rng.choice(("bytes", "path", "fileobj"))}
        k = rng.below(cfg["universe"])
        return {"op": "add", "k": k, "sched": self._gen_sched(rng)}

    def _gen_sched(self, rng, alt=None):
        strat = self.cfg["strat"] if alt is None else rng.choice(seams.Sched.STRATS[:4])
        return {"tape": [], "strat": strat, "seed": rng.below(1 << 32)}

    # ------------------------------------------------------------------ world
    def setup(self, cfg):
        from probables import CuckooFilter, CountingCuckooFilter

        seams.SURROGATE_OK = cfg["hash"] == "default"
        self.cfg = cfg
        self.counting = cfg["counting"]
        self.n_gen = 0
        self.fans_left = self.fanout_cap
        self.sr = seams.install_simrandom()
        # "wide": a strategy returning 128-bit integers (only the low bits make the fingerprint; bucket = hash mod capacity)
        # "signed": values in [-2^63, 2^63) like Python's own hash(); '%' on a negative value is still a bucket index
        self.hf = seams.make_single_hash("sim" if cfg["hash"] in ("wide", "signed") else cfg["hash"], cfg["hseed"],
                                         128 if cfg["hash"] == "wide" else 64, signed=cfg["hash"] == "signed")
        self.cls = CountingCuckooFilter if self.counting else CuckooFilter
        if cfg.get("error_rate"):
            self.f = self.cls.init_error_rate(
                cfg["error_rate"], capacity=cfg["capacity"], bucket_size=cfg["bucket_size"], max_swaps=cfg["max_swaps"],
                expansion_rate=cfg["expansion_rate"], auto_expand=cfg["auto_expand"], hash_function=self.hf,
            )
            self.mask = (1 << self.f.fingerprint_size_bits) - 1
            self.ctx.probe("sized_by_error_rate")
        else:
            self.f = self.cls(
                capacity=cfg["capacity"], bucket_size=cfg["bucket_size"], max_swaps=cfg["max_swaps"],
                expansion_rate=cfg["expansion_rate"], auto_expand=cfg["auto_expand"], finger_size=cfg["finger_size"],
                hash_function=self.hf,
            )
            self.mask = (1 << (8 * cfg["finger_size"])) - 1
        self.model = {}  # fp -> count (plain: always 1)
        self.fp_key = {}  # fp -> first key index seen with it
        self.key_fp_cache = {}
        self.indeterminate = 0

    def fp_of(self, k):
        fp = self.key_fp_cache.get(k)
        if fp is None:
            key = seams.key_of(k)
            h = self.hf(key) if self.hf is not None else own_fnv1a64(key)
            fp = h & self.mask
            if fp == 0:
                # 0 is the empty-slot marker of the export format; the filter stores such keys as 1
                fp = 1
                self.ctx.probe("key_with_fingerprint_zero")
            self.key_fp_cache[k] = fp
        return fp

    def key_in_model(self):
        return [self.fp_key[fp] for fp in self.model]

    def table(self, f=None):
        f = f or self.f
        if self.counting:
            return [[(b.finger, b.count) for b in bucket] for bucket in f.buckets]
        return [list(bucket) for bucket in f.buckets]

    def needs_kick(self, fp):
        f = self.f
        if fp in self.table_fps():
            return False
        i1 = fp % f.capacity
        h = self.hf(str(fp)) if self.hf is not None else own_fnv1a64(str(fp))
        i2 = h % f.capacity
        return len(f.buckets[i1]) >= f.bucket_size and len(f.buckets[i2]) >= f.bucket_size

    def table_fps(self, f=None):
        f = f or self.f
        out = []
        for bucket in f.buckets:
            for b in bucket:
                out.append(b.finger if self.counting else b)
        return out

    # ------------------------------------------------------------------ executing one op on (f, model)
    def run_op(self, f, model, step, sched_spec):
        """Apply step to filter f and to model (both mutated).  Returns outcome dict."""
        from probables.exceptions import CuckooFilterFullError

        op = step["op"]
        sched = seams.Sched(sched_spec)
        self.sr.arm(sched)
        pre_model = dict(model)
        cap0 = f.capacity
        out = {"r": "ok"}
        try:
            try:
                if op == "add":
                    key = seams.key_of(step["k"])
                    f.add(key)
                elif op == "remove":
                    key = seams.key_of(step["k"])
                    out["ret"] = f.remove(key)
                elif op == "expand":
                    f.expand()
                else:
                    raise HarnessError(op)
            except CuckooFilterFullError as e:
                out["r"] = "full"
                out["msg"] = "expand" if "expand" in str(e) else "full"
            except (HarnessError, Violation):
                raise
            except Exception as e:
                # CuckooFilterFullError is the one documented refusal; anything else raised by a valid call means the
                # call the properties speak about produced no result
                from ..core import _raised_in_library

                where = _raised_in_library(e)
                if where is None:
                    raise
                raise Violation("unexpected_exception", f"{op} raised {type(e).__name__}: {e} at {where} "
                                                        f"(decisions so far {sched.consumed})",
                                {"class": self.cls.__name__, "op": op, "exception": type(e).__name__})
        finally:
            self.sr.disarm()
        out["dec"] = list(sched.consumed)
        out["cap"] = f.capacity
        out["cap0"] = cap0
        # ---- model update
        if op == "add":
            fp = self.fp_of(step["k"])
            self.fp_key.setdefault(fp, step["k"])
            if out["r"] == "ok":
                if self.counting:
                    model[fp] = model.get(fp, 0) + 1
                else:
                    model[fp] = 1
        elif op == "remove":
            fp = self.fp_of(step["k"])
            if out["r"] == "ok" and fp in model:
                if self.counting:
                    model[fp] -= 1
                    if model[fp] == 0:
                        del model[fp]
                else:
                    del model[fp]
        return out, pre_model, sched

    def present(self, f, fp):
        k = self.fp_key[fp]
        return f.check(seams.key_of(k))

    def adopt(self, f, model, step):
        """After an operation whose effect the statement leaves open: take the model from observation."""
        for fp in list(model):
            v = self.present(f, fp)
            if not v:
                del model[fp]
            elif self.counting:
                model[fp] = int(v)
        if step["op"] == "add":
            fp = self.fp_of(step["k"])
            v = self.present(f, fp)
            if v:
                model[fp] = int(v) if self.counting else 1
            else:
                model.pop(fp, None)

    # ------------------------------------------------------------------ apply
    def apply(self, step):
        ctx = self.ctx
        op = step["op"]
        ctx.count("op." + op)
        if op == "restart":
            return self.do_restart(step)
        if op == "expand" and self.f.capacity * self.cfg["expansion_rate"] > 4096:
            return "skip"
        # fan-out: same operation from a deep-copied pre-state under other decision tapes
        fan = step.get("fan") or []
        small_tree = 2 * self.f.bucket_size ** min(self.cfg["max_swaps"], 12) <= 256
        if (self.cfg.get("fan_all") and self.fans_left > 0 and self.f.capacity <= 64 and small_tree
                and ((op == "add" and self.needs_kick(self.fp_of(step["k"])))
                     or (op == "expand" and len(self.model) >= 2 and self.f.capacity * self.cfg["expansion_rate"] <= 64))):
            # enumerate ALL resolutions of this insertion's random choices from a deep-copied pre-state
            self.fans_left -= 1
            tape = []
            n_br = 0
            while tape is not None and n_br < 300:
                f2 = copy.deepcopy(self.f)
                m2 = dict(self.model)
                out2, pre2, sched2 = self.run_op(f2, m2, step, {"tape": tape, "strat": "zero"})
                n_br += 1
                ctx.fault("evict_fanout")
                self.judge(f2, m2, pre2, step, out2, branch=f"all:{sched2.consumed}")
                tape = seams.next_tape(sched2.consumed, sched2.arity)
            ctx.count("fan_all_ops")
            ctx.count("fan_all_branches", n_br)
            if tape is None:
                ctx.count("fan_all_complete")
            step["fan"] = []
            fan = []
        if fan and op == "add" and self.fans_left > 0 and self.needs_kick(self.fp_of(step["k"])):
            self.fans_left -= 1
            for j, spec in enumerate(fan):
                f2 = copy.deepcopy(self.f)
                m2 = dict(self.model)
                out2, pre2, sched2 = self.run_op(f2, m2, step, spec)
                fan[j] = {"tape": list(sched2.consumed), "strat": "zero"}
                ctx.fault("evict_fanout")
                self.judge(f2, m2, pre2, step, out2, branch=j)
        elif fan:
            step["fan"] = []
        out, pre, sched = self.run_op(self.f, self.model, step, step.get("sched"))
        if "sched" in step:
            step["sched"] = {"tape": list(sched.consumed), "strat": "zero"}
        n_dec = len(sched.consumed)
        if n_dec:
            ctx.fault("evict_choice", 1 if op == "add" else 0)
            ctx.fault("evict_slot", n_dec)
            ctx.nontrivial = True
            ctx.probe("kicks_%s" % ("1" if n_dec <= 2 else "2-5" if n_dec <= 6 else "6+"))
        if out["cap"] != out["cap0"]:
            ctx.probe("expansion")
            ctx.nontrivial = True
        if out["r"] == "full":
            ctx.fault("table_full" if out.get("msg") == "full" else "expand_fail")
        self.judge(self.f, self.model, pre, step, out, branch=None)
        ctx.state(canon(self.table()))
        return {"r": out["r"], "dec": out["dec"], "cap": out["cap"], "n": len(self.model)}

    def judge(self, f, model, pre_model, step, out, branch):
        """Evaluate this property's oracle; then (for open outcomes) adopt the model."""
        if out["r"] != "ok":
            self.oracle_failed(f, model, pre_model, step, out, branch)
            self.adopt(f, model, step)
            self.oracle_after_adopt(f, model, step, out, branch)
        else:
            self.oracle_ok(f, model, pre_model, step, out, branch)

    # hooks -----------------------------------------------------------------
    def oracle_ok(self, f, model, pre_model, step, out, branch):
        pass

    def oracle_failed(self, f, model, pre_model, step, out, branch):
        pass

    def oracle_after_adopt(self, f, model, step, out, branch):
        pass

    def do_restart(self, step):
        return "skip"

    def sig(self, step, out, **extra):
        s = {
            "class": self.cls.__name__, "op": step["op"], "outcome": out["r"] if out["r"] in ("ok", "full") else "exc",
            "msg": out.get("msg"), "auto_expand": bool(self.cfg["auto_expand"]),
            "expanded": out.get("cap") != out.get("cap0"),
        }
        s.update(extra)
        return s

    # shrinking aids
    def simplify_step(self, step):
        if "k" in step and step["k"] > 0:
            for k2 in (0, step["k"] // 2, step["k"] - 1):
                if k2 != step["k"]:
                    s = dict(step)
                    s["k"] = k2
                    yield s

    def simplify_config(self, cfg):
        for key, lows in (("capacity", (1, 2, 3)), ("bucket_size", (1, 2)), ("max_swaps", (1, 2, 3)),
                          ("universe", (6, 10)), ("expansion_rate", (2,))):
            for v in lows:
                if v < cfg[key]:
                    c = dict(cfg)
                    c[key] = v
                    yield c
        if cfg.get("hash") != "default":
            c = dict(cfg)
            c["hash"] = "default"
            yield c
        if cfg.get("error_rate"):
            c = dict(cfg)
            c["error_rate"] = None
            yield c


# ---------------------------------------------------------------------- restart (export -> load) for world K
def cuckoo_export(world, f, chan):
    """Export f over one channel; returns the payload bytes (and the path for 'path')."""
    from ..seams import SimFile
    import os

    if chan == "bytes":
        return bytes(f), None
    if chan == "fileobj":
        sink = SimFile()
        f.export(sink)
        return sink.getvalue(), None
    if chan in ("path", "fspath"):
        p = os.path.join(world.ctx.scratch, "cuckoo.cko")
        if os.path.exists(p):
            os.unlink(p)
        f.export(seams.FsPath(p) if chan == "fspath" else p)  # fspath: an os.PathLike that is neither str nor Path
        with open(p, "rb") as fh:
            return fh.read(), p
    if chan == "mmap":
        import mmap as _mmap

        size = len(bytes(f))
        p = os.path.join(world.ctx.scratch, "cuckoo.mm")
        with open(p, "wb") as fh:
            fh.write(b"\x00" * size)
        with open(p, "r+b") as fh:
            mm = _mmap.mmap(fh.fileno(), size)
            try:
                f.export(mm)
                mm.flush()
            finally:
                mm.close()
        with open(p, "rb") as fh:
            return fh.read(), p
    raise HarnessError(chan)


def cuckoo_load(world, payload, path, chan):
    """Load through the class's own loader, re-supplying only what the format does not store."""
    cfg = world.cfg
    cls = world.cls
    if cfg.get("error_rate"):
        if chan == "path":
            g = cls.load_error_rate(cfg["error_rate"], path, hash_function=world.hf)
        else:
            g = cls.frombytes(payload, error_rate=cfg["error_rate"], hash_function=world.hf)
        g.expansion_rate = cfg["expansion_rate"]
        g.auto_expand = cfg["auto_expand"]
        return g
    if chan == "path":
        g = cls(filepath=path, finger_size=cfg["finger_size"], expansion_rate=cfg["expansion_rate"],
                auto_expand=cfg["auto_expand"], hash_function=world.hf)
    else:
        g = cls.frombytes(payload, hash_function=world.hf)
        g.fingerprint_size = cfg["finger_size"]
        g.expansion_rate = cfg["expansion_rate"]
        g.auto_expand = cfg["auto_expand"]
    return g
