"""Subjects: uniform adapters over the Bloom family (world B), expanding/rotating
(world E) and the count-min family (world S): construction from a drawn
configuration, seeded mutation histories with a reference model, export over
every channel the class offers, loading through the class's own loaders, and a
full observation (geometry, counters, answers for a probe set).
"""
import os
import struct
from binascii import hexlify

from ..core import HarnessError, Violation
from .. import seams
from . import common

INT32_MAX = 2**31 - 1
INT32_MIN = -(2**31)
UINT32_MAX = 2**32 - 1

HASH_WEIGHTS = [(3, "fnv"), (1, "md5"), (1, "sha256"), (1, "dec_bytes"), (1, "dec_int"), (2, "sim"), (2, "sim_sq")]


def draw_hash(rng, m_hint=8):
    return {"hash": rng.weighted(HASH_WEIGHTS), "hseed": rng.below(1 << 16), "squeeze": rng.between(1, max(1, min(4, m_hint)))}


def _kwcall(obj, name, **kw):
    """call a public method with its arguments spelled by their documented names"""
    try:
        return getattr(obj, name)(**kw)
    except TypeError as e:
        if "keyword argument" in str(e) and e.__traceback__.tb_next is None:
            raise Violation("documented_keyword_refused", f"{type(obj).__name__}.{name}({', '.join(k + '=...' for k in kw)}) "
                                                          f"raised TypeError: {e}",
                            {"class": type(obj).__name__, "op": name})
        raise


def api_add(obj, key, alt=False, n=None, force=None, tracked=False, hasher=None, longer=0, buf=None):
    """add through one of the public spellings: add(key, ...) or add_alt(hashes(key), ...), arguments positional or
    (alt == "kw" / "altkw") by their documented names.  Default arguments are left to the library whenever the value
    asked for is the documented default."""
    if alt == "kw":
        kw = {"key": key}
        if n is not None:
            kw["num_els"] = n
        if force is not None:
            kw["force"] = force
        return _kwcall(obj, "add", **kw)
    if not alt:
        if n is not None:
            return obj.add(key, n)
        if force is not None:
            return obj.add(key, force)
        return obj.add(key)
    hs = (hasher or obj).hashes(key)
    if longer:
        # a list computed once at a larger depth (strategies are prefix-stable): plain Bloom filters use its prefix
        hs = (hasher or obj).hashes(key, len(hs) + longer)
    if buf is not None:
        # the caller keeps ONE list as a scratch buffer and refills it in place for every call
        buf[:] = hs
        hs = buf
    mine = list(hs)
    if alt == "altkw":
        kw = {"hashes": hs}
        if tracked:
            kw["key"] = key
        if n is not None and n != 1:
            kw["num_els"] = n
        if force:
            kw["force"] = True
        r = _kwcall(obj, "add_alt", **kw)
    else:
        args = ([key] if tracked else []) + [hs]
        if n is not None and n != 1:
            args.append(n)
        if force:
            args.append(True)
        r = obj.add_alt(*args)
    _caller_list_intact(hs, mine, "add_alt", obj)
    return r


def _caller_list_intact(hs, mine, what, obj):
    # the list belongs to the caller, who may hand the same list on to further structures (of other sizes)
    if hs != mine:
        from ..core import Violation

        raise Violation("caller_hashes_modified", f"{type(obj).__name__}.{what} rewrote the hash list it was given: "
                                                  f"{mine[:4]} -> {hs[:4]}", {"class": type(obj).__name__, "op": what})


def api_remove(obj, key, n, alt=False, tracked=False):
    if alt == "kw":
        return _kwcall(obj, "remove", key=key, num_els=n)
    if not alt:
        return obj.remove(key, n)
    hs = obj.hashes(key)
    mine = list(hs)
    if alt == "altkw" and (tracked or type(obj).__name__ != "HeavyHitters"):
        kw = {"hashes": hs}
        if tracked:
            kw["key"] = key
        if n != 1:
            kw["num_els"] = n
        r = _kwcall(obj, "remove_alt", **kw)
    else:
        args = ([key] if tracked else []) + [hs] + ([n] if n != 1 else [])
        r = obj.remove_alt(*args)
    _caller_list_intact(hs, mine, "remove_alt", obj)
    return r


def api_check(obj, key, alt=False, hasher=None, longer=0):
    if alt == "kw":
        return _kwcall(obj, "check", key=key)
    if not alt:
        return obj.check(key)
    h = hasher or obj
    hs = h.hashes(key)
    if longer:
        hs = h.hashes(key, len(hs) + longer)
    mine = list(hs)
    r = _kwcall(obj, "check_alt", hashes=hs) if alt == "altkw" else obj.check_alt(hs)
    _caller_list_intact(hs, mine, "check_alt", obj)
    return r


def set_op(x, name, y, kw=False):
    """union / intersection / jaccard_index / join / merge with the operand positional or as `second=`."""
    return _kwcall(x, name, second=y) if kw else getattr(x, name)(y)


class Env:
    """What a subject needs from the run: hash strategy, scratch tree, counters."""

    CLOSURE_KINDS = ("dec_bytes", "dec_int", "sim", "sim_sq")

    def __init__(self, ctx, cfg, need_fs=True):
        seams.SURROGATE_OK = cfg.get("hash") == "fnv"
        self.ctx = ctx
        self.cfg = cfg
        self._hash = (cfg["hash"], cfg["hseed"], cfg.get("squeeze", 0))
        self.hf = seams.make_list_hash(*self._hash)
        self.scr = seams.Scratch(ctx.scratch) if need_fs else None
        self.n_files = 0
        self.dead_ids = set()

    def closures(self):
        return self._hash[0] in self.CLOSURE_KINDS

    def fresh_hf(self):
        """Another function OBJECT computing the run's hash strategy (a factory that builds the strategy per filter);
        for the library default and the module-level strategies there is only the one object."""
        if not self.closures():
            return self.hf
        hf = seams.make_list_hash(*self._hash)
        if id(hf) in self.dead_ids:
            self.ctx.fault("hash_object_id_reused")
        return hf

    def other_hf(self, n=1):
        """A strategy of the same kind under another key: computes different values."""
        kind, seed, squeeze = self._hash
        return seams.make_list_hash(kind, (seed + 7919 * n) & 0xFFFFFF, squeeze)

    def recycle(self, exercise, n=1, makers=None):
        """Prior life: n strategy objects of ANOTHER key are created, handed to exercise(*objs) (which builds short-lived
        structures around them and uses them), and die - before the run's own strategy object is created.  CPython hands
        the freed addresses out again, so anything the library remembers per id() of a function or of a structure
        meets an object that is not the one it remembered."""
        if not self.cfg.get("recycle") or not self.closures():
            return False
        import gc

        self.hf = None
        gc.collect()
        decoys = [mk() for mk in makers] if makers else [self.other_hf(i + 1) for i in range(n)]
        self.dead_ids = {id(d) for d in decoys}
        try:
            exercise(*decoys)
        finally:
            del decoys
            gc.collect()
        self.ctx.fault("prior_life")
        self.hf = self.fresh_hf()
        return True

    def fresh_name(self, ext):
        self.n_files += 1
        return f"f{self.n_files}.{ext}"

    def cleanup(self):
        if self.scr is not None:
            self.scr.cleanup()


def near_sizing(est, rate):
    """(est, rate) with the same number of hashes and the same number of BYTES but another number of bits, or None."""
    g0 = common.geometry(est, rate)
    if g0 is None:
        return None
    m0, k0 = g0
    for e2 in (est, est + 1, est - 1, est + 2, est - 2):
        if e2 < 1:
            continue
        for i in range(-40, 41):
            r2 = rate * (1.0 + 0.004 * i)
            g = common.geometry(e2, r2) if 0 < r2 < 1 else None
            if g and g[0] != m0 and g[1] == k0 and (g[0] + 7) // 8 == (m0 + 7) // 8:
                return e2, r2
    return None


def cross_kind_sizing(cells):
    """(est, rate, as_bytes): a sizing whose number of bits is `cells` (as_bytes False) or whose number of BYTES is
    `cells` (as_bytes True), for the structure of the other cell kind; None if the small grid holds none."""
    for e2 in range(1, 400):
        for r2 in (0.05, 0.1, 0.2, 0.01, 0.3, 0.5):
            g = common.geometry(e2, r2)
            if g is None:
                continue
            if g[0] == cells:
                return e2, r2, False
            if (g[0] + 7) // 8 == cells and g[0] > cells:
                return e2, r2, True
            if g[0] > 8 * cells + 8:
                break
    return None


def neighbour_cfg(cfg):
    """Parameters of a second live structure of the same class: same hash strategy, slightly different sizing."""
    c = dict(cfg, _decoy=True, subclass=False, neighbour=False, recycle=False)
    if "rate" in c and "est" in c:
        g0 = common.geometry(c["est"], c["rate"])
        for r in (c["rate"] / 2.0, c["rate"] * 0.7, min(0.9, c["rate"] * 1.5)):
            g = common.geometry(c["est"], r) if 0 < r < 1 else None
            if g is not None and g != g0 and g[0] <= 4000:
                c["rate"] = r
                break
    if isinstance(c.get("sizing"), dict):
        sz = dict(c["sizing"])
        if "width" in sz:
            sz["width"] += 1
        elif "error_rate" in sz:
            sz["error_rate"] = sz["error_rate"] * 0.5
        c["sizing"] = sz
    for k in ("param", "mqs"):
        if isinstance(c.get(k), int):
            c[k] += 1
    return c


def byteslike(payload, variant):
    """The bytes channel accepts any ByteString: bytes, bytearray or memoryview."""
    if variant == 1:
        return bytearray(payload)
    if variant == 2:
        return memoryview(payload)
    return payload


class Subject:
    name = "?"
    channels = ("bytes", "path", "fileobj")
    ext = "bin"
    variant = 0  # which ByteString flavour the next bytes-channel load uses (set by the scenario)

    def __init__(self, env, cfg):
        self.env = env
        self.cfg = cfg
        self.obj = None
        self.model = {}  # key index -> outstanding count (or 1)
        self.total_adds = 0
        self.nb = None
        if cfg.get("neighbour") and not cfg.get("_decoy") and not any(cfg.get(f) for f in ("big", "wideq", "large")):
            self.nb = type(self)(env, neighbour_cfg(cfg))
            env.ctx.fault("neighbour")
        if cfg.get("prior") and not cfg.get("_decoy") and self.name in ("BloomFilter", "BloomFilterOnDisk",
                                                                        "CountingBloomFilter") and "rate" in cfg:
            self.prior_life(env, cfg)
        if cfg.get("recycle") and not cfg.get("_decoy"):
            def exercise(hf):
                env.hf = hf
                d = type(self)(env, dict(cfg, _decoy=True, subclass=False))
                try:
                    d.build()
                    for k in range(min(cfg.get("universe", 8), 10)):
                        d.apply_op({"op": "add", "k": k, "n": 1 + k % 3, "force": False})
                finally:
                    d.close()
                    env.hf = None

            env.recycle(exercise)
        if cfg.get("subclass"):
            base = type(self).cls(self)
            sub = type("User" + base.__name__, (base,), {})
            self.cls = lambda: sub
            env.ctx.fault("user_subclass")

    def prior_life(self, env, cfg):
        """Another structure lived in this process before the subject (same hash strategy object):
        "near"  - same class, same number of hashes and of BYTES, another number of bits;
        "cross" - the other cell kind (Bloom <-> counting Bloom) with exactly as many cells as the subject.
        It takes some keys, answers its statistics, is combined with itself, exported and cleared, and dies."""
        import probables

        g = common.geometry(cfg["est"], cfg["rate"])
        if g is None:
            return
        m, k = g
        counting = self.name == "CountingBloomFilter"
        d = None
        if cfg["prior"] == "near" and not counting:
            sz = near_sizing(cfg["est"], cfg["rate"])
            if sz is not None:
                d = probables.BloomFilter(sz[0], sz[1], hash_function=env.hf)
        elif cfg["prior"] == "cross":
            cells = m if counting else (m + 7) // 8
            sz = cross_kind_sizing(cells)
            if sz is not None and (sz[2] if counting else not sz[2]):
                C = probables.BloomFilter if counting else probables.CountingBloomFilter
                d = C(sz[0], sz[1], hash_function=env.hf)
        if d is None:
            return
        for i in range(10):
            d.add(seams.key_of(i))
            d.current_false_positive_rate()
            d.estimate_elements()
        d.union(d)
        d.intersection(d)
        d.jaccard_index(d)
        bytes(d)
        d.clear()
        del d
        env.ctx.fault("prior_life_" + cfg["prior"])

    # -- export over one channel; returns payload (bytes, or str for hex)
    def export(self, chan, where=None, style="abs"):
        obj = self.obj
        if chan == "bytes":
            return bytes(obj)
        if chan == "fileobj":
            kind = getattr(self, "sink_kind", 0)
            if kind == 0:
                sink = seams.SimFile()  # raw, not seekable
                obj.export(sink)
                return sink.getvalue()
            # a seekable binary stream, empty or already holding a header with the position behind it: the export
            # goes where the stream stands and what was written before stays
            import io

            header = b"" if kind == 1 else b"HDR:" + bytes(range(37))
            sink = io.BytesIO()
            sink.write(header)
            obj.export(sink)
            whole = sink.getvalue()
            if whole[:len(header)] != header:
                raise Violation("export_overwrote_stream", f"{self.name}.export(stream positioned at {len(header)}) changed "
                                                           f"the {len(header)} bytes written before", {"class": self.name,
                                                                                                    "chan": "fileobj"})
            self.env.ctx.fault("export_into_positioned_stream" if header else "export_into_seekable_stream")
            return whole[len(header):]
        if chan == "path":
            d, name = where
            spelled = self.env.scr.spell(d, name, style)
            obj.export(spelled)
            if not os.path.isfile(self.env.scr.abspath(d, name)):
                raise Violation("export_destination_missing",
                                f"{self.name}.export({spelled!r}) from cwd {self.env.scr.cwd!r} returned, but there is no "
                                f"file at that path", {"class": self.name, "chan": "path", "style": style})
            return common.read_fresh(self.env.scr.abspath(d, name))
        if chan == "hex":
            return obj.export_hex()
        if chan == "mmap":
            import mmap as _mmap

            size = len(bytes(obj))
            path = self.env.scr.abspath("b", self.env.fresh_name("mm"))
            with open(path, "wb") as fh:
                fh.write(b"\x00" * size)
            with open(path, "r+b") as fh:
                mm = _mmap.mmap(fh.fileno(), size)
                try:
                    obj.export(mm)
                    mm.flush()
                finally:
                    mm.close()
            return common.read_fresh(path)
        raise HarnessError(chan)

    def close(self):
        pass

    def universe(self):
        return range(self.cfg["universe"])

    def probe_keys(self):
        u = self.cfg["universe"]
        return list(range(u)) + [u + 100, u + 101, u + 102]


# ============================================================================ world B


class BloomSubject(Subject):
    name = "BloomFilter"
    channels = ("bytes", "path", "fileobj", "hex")
    ext = "blm"

    @staticmethod
    def gen_cfg(rng, small=False):
        est, rate = common.draw_geometry(rng, est_choices=(1, 2, 3, 5, 8, 13, 40) if small else common.EST,
                                         max_bits=3000 if small else 20000)
        m, k = common.geometry(est, rate)
        cfg = {"est": est, "rate": rate, "universe": rng.choice((4, 8, 16, 24))}
        cfg.update(draw_hash(rng, m))
        return cfg

    def cls(self):
        from probables import BloomFilter

        return BloomFilter

    def build(self):
        self.obj = self.cls()(self.cfg["est"], self.cfg["rate"], hash_function=self.env.hf)
        self.m, self.k = common.geometry(self.cfg["est"], self.cfg["rate"])
        return self.obj

    def gen_op(self, rng):
        if rng.chance(1, 12):
            return {"op": "burst", "k": rng.below(self.cfg["universe"]), "cnt": rng.choice((20, 60, 300))}
        if rng.chance(1, 10):
            # the caller computes the hash lists of several keys first and uses them afterwards
            return {"op": "batch", "ks": [rng.below(self.cfg["universe"]) for _ in range(rng.between(2, 5))]}
        return {"op": "add", "k": rng.below(self.cfg["universe"])}

    def apply_op(self, st):
        if st["op"] == "add":
            api_add(self.obj, seams.key_of(st["k"]), st.get("alt"), longer=self.longer(st["k"]))
            self.model[st["k"]] = 1
            self.total_adds += 1
            return None
        if st["op"] == "batch":
            lists = [self.obj.hashes(seams.key_of(k)) for k in st["ks"]]
            for k, hs in zip(st["ks"], lists):
                self.obj.add_alt(hs)
                self.model[k] = 1
            self.total_adds += len(st["ks"])
            return None
        if st["op"] == "burst":  # many adds (same few keys) so that the stored count needs more than one byte
            for i in range(st["cnt"]):
                k = (st["k"] + i % 3) % self.cfg["universe"]
                self.obj.add(seams.key_of(k))
                self.model[k] = 1
            self.total_adds += st["cnt"]
            return None
        if st["op"] == "clear":
            self.obj.clear()
            self.model = {}
            self.total_adds = 0
            return None
        raise HarnessError(st["op"])

    def load(self, payload, chan, where=None, style="abs"):
        C = self.cls()
        hf = self.env.hf
        if chan in ("bytes", "fileobj"):
            return C.frombytes(byteslike(payload, self.variant), hash_function=hf)
        # the documented initialisation order is file, hex string, parameters: sizing arguments given in addition to
        # a source must not win over it
        extra = {"est_elements": self.cfg["est"] + 3, "false_positive_rate": 0.3} if self.variant == 2 else {}
        if chan == "path":
            d, name = where
            return C(filepath=self.env.scr.spell(d, name, style), hash_function=hf, **extra)
        if chan == "hex":
            return C(hex_string=payload, hash_function=hf, **extra)
        raise HarnessError(chan)

    def expected_hex(self, payload):
        arr, foot = payload[:-20], payload[-20:]
        est, cnt, rate = struct.unpack("QQf", foot)
        return (hexlify(arr) + hexlify(struct.pack(">QQf", est, cnt, rate))).decode()

    def observe(self, obj=None):
        o = obj if obj is not None else self.obj
        return {
            "geom": [o.number_bits, o.number_hashes, o.estimated_elements, o.bloom_length, o.export_size(),
                     repr(o.false_positive_rate)],
            "count": o.elements_added,
            "answers": [int(api_check(o, seams.key_of(k), alt=bool(k % 2), longer=self.longer(k))) for k in self.probe_keys()],
            "contains": [seams.key_of(k) in o for k in self.probe_keys()[:4]],
        }

    def longer(self, k):
        # only the plain (bit) filters take a prefix of the list; the counting filter reads every entry it is given
        return 0 if self.name == "CountingBloomFilter" else (0, 0, 3)[k % 3]


class OnDiskSubject(BloomSubject):
    name = "BloomFilterOnDisk"
    channels = ("path", "bytes")

    def cls(self):
        from probables import BloomFilterOnDisk

        return BloomFilterOnDisk

    def build(self):
        self.m, self.k = common.geometry(self.cfg["est"], self.cfg["rate"])
        name = self.env.fresh_name("blm")
        self.home = ("a", name)
        self.obj = self.cls()(self.env.scr.abspath("a", name), self.cfg["est"], self.cfg["rate"], hash_function=self.env.hf)
        return self.obj

    def load(self, payload, chan, where=None, style="abs"):
        from probables import BloomFilter

        if chan == "path":
            d, name = where
            return self.cls()(self.env.scr.spell(d, name, style), hash_function=self.env.hf)
        if chan == "bytes":  # the on-disk class refuses bytes; its payload is a plain Bloom export
            return BloomFilter.frombytes(payload, hash_function=self.env.hf)
        raise HarnessError(chan)

    def close(self):
        try:
            if self.obj is not None and hasattr(self.obj, "close"):
                self.obj.close()
        except Exception:
            pass


class CountingBloomSubject(BloomSubject):
    name = "CountingBloomFilter"
    channels = ("bytes", "path", "fileobj", "hex")
    ext = "cbm"

    def cls(self):
        from probables import CountingBloomFilter

        return CountingBloomFilter

    def gen_op(self, rng):
        u = self.cfg["universe"]
        present = sorted(k for k, v in self.model.items() if v > 0)
        if present and rng.chance(1, 3) and not self.cfg.get("saturated"):
            k = rng.choice(present)
            return {"op": "remove", "k": k, "n": rng.between(1, min(self.model[k], 3))}
        n = rng.weighted([(6, 1), (2, 2), (1, 5)])
        if self.cfg.get("saturate") and rng.chance(1, 6):
            n = rng.choice((UINT32_MAX - 1, UINT32_MAX, 2**31))
        return {"op": "add", "k": rng.below(u), "n": n}

    def apply_op(self, st):
        key = seams.key_of(st["k"]) if "k" in st else None
        if st["op"] == "add":
            r = api_add(self.obj, key, st.get("alt"), n=st["n"])
            self.model[st["k"]] = self.model.get(st["k"], 0) + st["n"]
            if st["n"] > 1000:
                self.cfg["saturated"] = True
            return r
        if st["op"] == "remove":
            if self.model.get(st["k"], 0) < st["n"] or self.cfg.get("saturated"):
                return "skip"
            r = api_remove(self.obj, key, st["n"], st.get("alt"))
            self.model[st["k"]] -= st["n"]
            return r
        if st["op"] == "clear":
            self.obj.clear()
            self.model = {}
            return None
        raise HarnessError(st["op"])

    def expected_hex(self, payload):
        return super().expected_hex(payload)


# ============================================================================ world E


class ExpandingSubject(Subject):
    name = "ExpandingBloomFilter"
    ext = "ebf"

    @staticmethod
    def gen_cfg(rng, small=True):
        est, rate = common.draw_geometry(rng, est_choices=(1, 2, 3, 5, 8), max_bits=600)
        m, k = common.geometry(est, rate)
        cfg = {"est": est, "rate": rate, "universe": rng.choice((6, 12, 24, 40)), "mqs": rng.between(1, 4)}
        cfg.update(draw_hash(rng, m))
        return cfg

    def cls(self):
        from probables import ExpandingBloomFilter

        return ExpandingBloomFilter

    def build(self):
        self.obj = self.cls()(est_elements=self.cfg["est"], false_positive_rate=self.cfg["rate"], hash_function=self.env.hf)
        self.m, self.k = common.geometry(self.cfg["est"], self.cfg["rate"])
        self.make_hasher()
        return self.obj

    def make_hasher(self):
        # the expanding / rotating filters expose no hashes(): callers of add_alt / check_alt take the hashes from a
        # plain BloomFilter of the same sizing and strategy
        from probables import BloomFilter

        self.hasher = BloomFilter(self.cfg["est"], self.cfg["rate"], hash_function=self.env.hf)

    def gen_op(self, rng):
        r = rng.below(20)
        if r < 16:
            return {"op": "add", "k": rng.below(self.cfg["universe"]), "force": rng.chance(1, 8)}
        return {"op": "push"}

    def apply_op(self, st):
        if st["op"] == "add":
            api_add(self.obj, seams.key_of(st["k"]), st.get("alt"), force=bool(st.get("force", False)), hasher=self.hasher)
            self.model[st["k"]] = 1
            self.total_adds += 1
            return None
        if st["op"] == "push":
            self.obj.push()
            return None
        raise HarnessError(st["op"])

    def load(self, payload, chan, where=None, style="abs"):
        C = self.cls()
        if chan in ("bytes", "fileobj"):
            return C.frombytes(byteslike(payload, self.variant), hash_function=self.env.hf)
        if chan == "path":
            d, name = where
            extra = {"est_elements": self.cfg["est"] + 2, "false_positive_rate": 0.4} if self.variant == 2 else {}
            return C(filepath=self.env.scr.spell(d, name, style), hash_function=self.env.hf, **extra)
        raise HarnessError(chan)

    def observe(self, obj=None):
        o = obj if obj is not None else self.obj
        return {
            "geom": [o.expansions, o.estimated_elements, repr(common.f32(o.false_positive_rate))],
            "count": o.elements_added,
            "answers": [int(api_check(o, seams.key_of(k), alt=bool(k % 2), hasher=self.hasher, longer=(0, 0, 2)[k % 3]))
                        for k in self.probe_keys()],
            "contains": [seams.key_of(k) in o for k in self.probe_keys()[:4]],
        }


class RotatingSubject(ExpandingSubject):
    name = "RotatingBloomFilter"
    ext = "rbf"

    def cls(self):
        from probables import RotatingBloomFilter

        return RotatingBloomFilter

    def build(self):
        self.obj = self.cls()(est_elements=self.cfg["est"], false_positive_rate=self.cfg["rate"],
                              max_queue_size=self.cfg["mqs"], hash_function=self.env.hf)
        self.m, self.k = common.geometry(self.cfg["est"], self.cfg["rate"])
        self.make_hasher()
        return self.obj

    def gen_op(self, rng):
        r = rng.below(20)
        if r < 15:
            return {"op": "add", "k": rng.below(self.cfg["universe"]), "force": rng.chance(1, 8)}
        if r < 18:
            return {"op": "push"}
        return {"op": "pop"}

    def apply_op(self, st):
        if st["op"] == "pop":
            if self.obj.current_queue_size <= 1:
                return "skip"
            self.obj.pop()
            return None
        return super().apply_op(st)

    def load(self, payload, chan, where=None, style="abs"):
        C = self.cls()
        if chan in ("bytes", "fileobj"):
            return C.frombytes(byteslike(payload, self.variant), max_queue_size=self.cfg["mqs"], hash_function=self.env.hf)
        if chan == "path":
            d, name = where
            return C(filepath=self.env.scr.spell(d, name, style), max_queue_size=self.cfg["mqs"], hash_function=self.env.hf)
        raise HarnessError(chan)

    def observe(self, obj=None):
        o = obj if obj is not None else self.obj
        d = super().observe(o)
        d["geom"] = d["geom"] + [o.max_queue_size, o.current_queue_size]
        return d


# ============================================================================ world S


class SketchSubject(Subject):
    name = "CountMinSketch"
    ext = "cms"
    mode = "min"
    tracked = False  # HeavyHitters / StreamThreshold: add_alt / remove_alt take the key as well

    @staticmethod
    def gen_cfg(rng):
        if rng.chance(1, 5):
            conf = rng.choice((0.5, 0.75, 0.9, 0.97))
            err = rng.choice((0.5, 0.25, 0.1, 0.04))
            sizing = {"confidence": conf, "error_rate": err}
        else:
            sizing = {"width": rng.choice((1, 2, 3, 5, 8, 50)), "depth": rng.between(1, 5)}
        cfg = {"sizing": sizing, "universe": rng.choice((4, 8, 12, 24)), "param": rng.between(1, 10)}
        cfg.update(draw_hash(rng, 3))
        return cfg

    def cls(self):
        from probables import CountMinSketch

        return CountMinSketch

    def ctor_kwargs(self):
        return {}

    def build(self):
        kw = dict(self.cfg["sizing"])
        kw.update(self.ctor_kwargs())
        self.obj = self.cls()(hash_function=self.env.hf, **kw)
        self.total = 0
        return self.obj

    def min_width(self):
        return 1

    def gen_op(self, rng):
        u = self.cfg["universe"]
        present = sorted(k for k, v in self.model.items() if v > 0)
        if self.supports_remove() and present and rng.chance(1, 3) and not self.cfg.get("saturated"):
            k = rng.choice(present)
            return {"op": "remove", "k": k, "n": rng.between(1, min(self.model[k], 4))}
        if self.supports_remove() and self.cfg.get("negatives") and self.total > 0 and rng.chance(1, 10):
            # bring the net total to exactly 0 while cells stay non-zero
            return {"op": "remove", "k": rng.below(u + 3), "n": self.total, "over": True}
        if self.supports_remove() and self.cfg.get("negatives") and rng.chance(1, 6):
            # over-removal: cells go negative (a reachable state; only used where no legitimacy is needed)
            return {"op": "remove", "k": rng.below(u), "n": rng.weighted([(4, 1), (2, 9), (1, 2**31 + 5)]), "over": True}
        n = rng.weighted([(6, 1), (2, 2), (1, 7), (1, 300)])
        if self.cfg.get("saturate") and rng.chance(1, 6):
            n = rng.choice((INT32_MAX - 1, INT32_MAX, 2**31, 2**33))
        return {"op": "add", "k": rng.below(u), "n": n}

    def supports_remove(self):
        return True

    def key(self, k):
        return seams.key_of(k)

    def apply_op(self, st):
        key = self.key(st["k"]) if "k" in st else None
        if st["op"] == "add":
            r = api_add(self.obj, key, st.get("alt"), n=st["n"], tracked=self.tracked)
            self.model[st["k"]] = self.model.get(st["k"], 0) + st["n"]
            self.total += st["n"]
            if st["n"] > 10000:
                self.cfg["saturated"] = True
            return r
        if st["op"] == "remove":
            if st.get("over") and self.cfg.get("negatives") and self.supports_remove():
                self.cfg["saturated"] = True  # from here on the Counter model no longer bounds removals
                self.total -= st["n"]
                return api_remove(self.obj, key, st["n"], st.get("alt"), tracked=self.tracked)
            if self.model.get(st["k"], 0) < st["n"] or self.cfg.get("saturated") or not self.supports_remove():
                return "skip"
            r = api_remove(self.obj, key, st["n"], st.get("alt"), tracked=self.tracked)
            self.model[st["k"]] -= st["n"]
            self.total -= st["n"]
            return r
        if st["op"] == "clear":
            self.obj.clear()
            self.model = {}
            self.total = 0
            return None
        raise HarnessError(st["op"])

    def load(self, payload, chan, where=None, style="abs"):
        C = self.cls()
        kw = self.ctor_kwargs()
        if chan in ("bytes", "fileobj"):
            return C.frombytes(byteslike(payload, self.variant), hash_function=self.env.hf, **kw)
        if chan == "path":
            d, name = where
            if self.variant == 2:
                kw = dict(kw, width=7, depth=2)  # a file wins over width and depth
            return C(filepath=self.env.scr.spell(d, name, style), hash_function=self.env.hf, **kw)
        raise HarnessError(chan)

    def observe(self, obj=None):
        o = obj if obj is not None else self.obj
        ans = []
        for k in self.probe_keys():
            try:
                ans.append(api_check(o, self.key(k), alt=bool(k % 2)))
            except ZeroDivisionError:
                ans.append("zerodiv")  # mean-min with width 1: outside every statement, but must agree
        return {
            # confidence / error_rate are not stored; a sketch sized by (width, depth) derives them from those two, so
            # they must survive a reload - one sized by (confidence, error_rate) reports the caller's figures before
            # and the derived ones after, which is not demanded
            "geom": [o.width, o.depth, o.query_type] + ([repr(o.confidence), repr(o.error_rate)]
                                                        if "width" in self.cfg["sizing"] else []),
            "count": o.elements_added,
            "answers": ans,
        }


class MeanSubject(SketchSubject):
    name = "CountMeanSketch"
    mode = "mean"

    def cls(self):
        from probables import CountMeanSketch

        return CountMeanSketch


class MeanMinSubject(SketchSubject):
    name = "CountMeanMinSketch"
    mode = "mean-min"

    def build(self):
        # width 1 makes the mean-min query divide by zero (outside every statement): keep away
        sz = self.cfg["sizing"]
        if sz.get("width") == 1:
            sz["width"] = 2
        return super().build()

    def cls(self):
        from probables import CountMeanMinSketch

        return CountMeanMinSketch


class HeavyHittersSubject(SketchSubject):
    name = "HeavyHitters"
    tracked = True

    def cls(self):
        from probables import HeavyHitters

        return HeavyHitters

    def ctor_kwargs(self):
        return {"num_hitters": self.cfg["param"]}

    def supports_remove(self):
        return False

    def key(self, k):  # tracked keys are dict keys: use text keys
        return seams.key_of(k) if k % 5 not in (0, 4) else f"t{k}"


class StreamThresholdSubject(SketchSubject):
    name = "StreamThreshold"
    tracked = True

    def cls(self):
        from probables import StreamThreshold

        return StreamThreshold

    def ctor_kwargs(self):
        return {"threshold": self.cfg["param"]}

    def key(self, k):
        return seams.key_of(k) if k % 5 not in (0, 4) else f"t{k}"


BLOOM_SUBJECTS = {c.name: c for c in (BloomSubject, OnDiskSubject, CountingBloomSubject)}
EXP_SUBJECTS = {c.name: c for c in (ExpandingSubject, RotatingSubject)}
SKETCH_SUBJECTS = {c.name: c for c in (SketchSubject, MeanSubject, MeanMinSubject, HeavyHittersSubject,
                                       StreamThresholdSubject)}
ALL_SUBJECTS = {}
ALL_SUBJECTS.update(BLOOM_SUBJECTS)
ALL_SUBJECTS.update(EXP_SUBJECTS)
ALL_SUBJECTS.update(SKETCH_SUBJECTS)


def gen_cfg_for(name, rng):
    if name in BLOOM_SUBJECTS:
        cfg = BloomSubject.gen_cfg(rng, small=True)
    elif name in EXP_SUBJECTS:
        cfg = ExpandingSubject.gen_cfg(rng)
    else:
        cfg = SketchSubject.gen_cfg(rng)
    # the structure under test is a trivial user subclass of the library class (documented classes are subclassable;
    # the library itself derives five of them from one another)
    cfg["subclass"] = rng.chance(1, 10)
    # a short-lived structure of the same class with another hash-strategy object precedes the subject (Env.recycle)
    cfg["recycle"] = rng.chance(1, 6)
    # a second live structure of the same class, same strategy, slightly different sizing (core.Scenario.neighbour_step)
    cfg["neighbour"] = rng.chance(1, 6)
    # a structure of near-identical geometry / of the other cell kind with the same number of cells lived before
    cfg["prior"] = rng.weighted([(8, None), (1, "near"), (1, "cross")])
    return cfg
