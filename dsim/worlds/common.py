"""Shared helpers for the Bloom-family worlds: independent geometry and position
calculators, footer parsing by layout, fresh-descriptor file reads."""
import math
import os
import struct

RATES = (0.5, 0.3, 0.2, 0.1, 0.05, 0.02, 0.01, 0.001, 1e-05, 1e-09, 1e-20, 1e-37)
EST = (1, 2, 3, 5, 8, 13, 40, 200, 1000)


def f32(x):
    return struct.unpack("f", struct.pack("f", float(x)))[0]


def geometry(est, rate):
    """(number_bits, number_hashes) as the description states; rate taken as float32."""
    p = f32(rate)
    if not (0.0 < p < 1.0):
        return None
    m = math.ceil((-est * math.log(p)) / 0.4804530139182)
    k = int(round(0.6931471805599453 * m / est))
    if k < 1 or m < 1:
        return None
    return m, k


def draw_geometry(rng, est_choices=EST, rates=RATES, max_bits=20000):
    for _ in range(50):
        est = rng.choice(est_choices)
        rate = rng.choice(rates)
        g = geometry(est, rate)
        if g is not None and g[0] <= max_bits:
            return est, rate
    return 5, 0.1


def positions(hashes, k, m):
    return [hashes[i] % m for i in range(k)]


def own_fnv_list(key, depth):
    out = []
    data = list(key) if not isinstance(key, str) else [ord(c) for c in key]
    for s in range(depth):
        h = (14695981039346656037 + 31 * s) & 0xFFFFFFFFFFFFFFFF
        for b in data:
            h ^= b
            h = (h * 1099511628211) & 0xFFFFFFFFFFFFFFFF
        out.append(h)
    return out


def hashes_of(hf, key, depth):
    """The hash values the library will be given for key: from the simulator's own strategy,
    or (library default) from the harness's own FNV-1a."""
    if hf is None:
        return own_fnv_list(key, depth)
    return hf(key, depth)


def read_fresh(path):
    """File content as seen through a fresh descriptor (what survives SIGKILL)."""
    fd = os.open(path, os.O_RDONLY)
    try:
        chunks = []
        while True:
            b = os.read(fd, 1 << 20)
            if not b:
                break
            chunks.append(b)
        return b"".join(chunks)
    finally:
        os.close(fd)


def bloom_footer(img):
    """(est_elements, elements_added, rate32) from the 20-byte QQf footer."""
    if len(img) < 20:
        return None
    return struct.unpack("QQf", img[-20:])


def bit_set(arr, pos):
    return (arr[pos // 8] >> (pos % 8)) & 1


def popcount_bytes(b):
    return sum(bin(x).count("1") for x in b)


def parse_expanding(payload, m):
    """Split an expanding/rotating export by layout: [Q count][ceil(m/8) bytes] * n + QQQf footer.
    Returns (counts, arrays, (n, est, added, rate))."""
    n, est, added, rate = struct.unpack("QQQf", payload[-28:])
    blen = (m + 7) // 8
    counts, arrays = [], []
    off = 0
    for _ in range(n):
        counts.append(struct.unpack("Q", payload[off:off + 8])[0])
        arrays.append(payload[off + 8:off + 8 + blen])
        off += 8 + blen
    if off != len(payload) - 28:
        return None
    return counts, arrays, (n, est, added, rate)


_ALIGNED = None


def aligned_geometries():
    """Sizings whose byte length (plain filter) or cell count (counting filter) is an exact multiple of 4096 - the
    block size bulk operations tend to be written around.  Found by search once per process."""
    global _ALIGNED
    if _ALIGNED is None:
        out = {"bytes": [], "cells": []}
        for rate in (0.5, 0.3, 0.2, 0.1, 0.05, 0.01):
            for est in range(50, 9000):
                g = geometry(est, rate)
                if g is None or g[0] > 40000:
                    continue
                if ((g[0] + 7) // 8) % 4096 == 0 and len(out["bytes"]) < 12:
                    out["bytes"].append((est, rate))
                if g[0] % 4096 == 0 and len(out["cells"]) < 12:
                    out["cells"].append((est, rate))
        _ALIGNED = out
    return _ALIGNED
