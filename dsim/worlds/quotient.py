"""World Q: QuotientFilter against a Python set of 32-bit ints, every public call
under a deterministic step budget (S7), hash values from a simulator-owned,
collision-rich universe (S6)."""
import io
import os

from ..core import BudgetExceeded, HarnessError, Scenario, Violation
from .. import seams

BUDGET = 400_000
Q_MAX = 9


def own_fnv1a32(key, seed=0):
    h = (0x811C9DC5 + 31 * seed) & 0xFFFFFFFF
    data = list(key) if not isinstance(key, str) else [ord(c) for c in key]
    for b in data:
        h ^= b
        h = (h * 0x01000193) & 0xFFFFFFFF
    return h


class QuotientWorld(Scenario):
    prop = "C00"
    max_steps = 60

    # ------------------------------------------------------------------ generation
    def gen_config(self, rng):
        seams.SURROGATE_OK = True  # same key universe as in setup(): the default-hash variant hashes the keys here
        q = rng.weighted([(5, 3), (4, 4), (2, 5), (1, 6)])
        r = 32 - q
        # remainder pool: small values, values with high bits (they become quotient bits after a resize)
        pool = [0, 1, 2, 3, 1 << (r - 1), (1 << (r - 1)) + 1, (1 << r) - 1, (1 << (r - 2)) + 5]
        rems = [rng.choice(pool) for _ in range(rng.between(1, 6))]
        if rng.chance(1, 3):
            rems.append(rng.below(1 << r))
        size = 1 << q
        uni = []
        n_uni = rng.choice((6, 10, 16, 24, 40))
        wrap_bias = rng.chance(1, 2)
        for _ in range(n_uni):
            if wrap_bias and rng.chance(1, 2):
                quo = size - 1 - rng.below(2)
            elif rng.chance(1, 3):
                quo = rng.below(min(size, 3))
            else:
                quo = rng.below(size)
            uni.append((quo << r) | rng.choice(rems))
        uni = sorted(set(uni))
        cfg = {
            "q": q, "auto_expand": rng.chance(1, 2), "mlf": rng.choice((0.5, 0.7, 0.85, 0.85, 1.0, 1.5)),
            "uni": uni, "keyed": rng.chance(1, 3), "steps": rng.between(5, self.max_steps),
            "avoid_full": rng.chance(1, 2),
        }
        if rng.chance(1, 8):
            # library default hash (32-bit FNV-1a): the universe is what the harness's own FNV-1a gives for the keys
            n = len(cfg["uni"])
            cfg.update({"default_hash": True, "keyed": True, "uni": [own_fnv1a32(seams.key_of(i)) for i in range(n)]})
        tier = os.environ.get("DSIM_TIER")
        if cfg.get("default_hash"):
            pass
        elif self.allow_big and rng.chance(1, 30 if tier != "thorough" else 15):
            # wide tables: remainders of 9..16 bits (quotient 16..23) are stored with another array type code
            # (quotient >= 24: 8-bit remainders, thorough tier only - 16M slots)
            q = rng.choice((15, 16, 16, 17, 20)) if not (tier == "thorough" and rng.chance(1, 12)) else 24
            r = 32 - q
            size = 1 << q
            pool = [0, 1, (1 << r) - 1, 1 << (r - 1), (1 << (r - 1)) + 1, (1 << (r - 1)) - 1]
            uni = set()
            base = rng.below(size)
            while len(uni) < rng.between(6, 16):
                quo = (base + rng.below(3)) % size if rng.chance(2, 3) else size - 1 - rng.below(2)
                uni.add((quo << r) | (rng.choice(pool) if rng.chance(3, 4) else rng.below(1 << r)))
            cfg.update({"q": q, "uni": sorted(uni), "big": True, "auto_expand": rng.chance(1, 2), "mlf": 0.85,
                        "steps": rng.between(5, 25), "avoid_full": True, "keyed": False})
        elif tier == "thorough" and rng.chance(1, 5):
            # larger tables and longer histories in the thorough tier
            q = rng.choice((6, 7, 8))
            r = 32 - q
            size = 1 << q
            uni = set()
            while len(uni) < rng.choice((60, 120, 250)):
                quo = size - 1 - rng.below(4) if rng.chance(1, 3) else rng.below(size)
                uni.add((quo << r) | rng.choice((0, 1, 2, 3, 1 << (r - 1), (1 << r) - 1, rng.below(1 << r))))
            cfg.update({"q": q, "uni": sorted(uni), "steps": rng.between(80, 240)})
        elif rng.chance(1, 5):
            # full-table pressure: a small table that cannot grow and a universe of 2-4x its size, so that the run
            # spends its time around 100 % load (whole-table clusters, removal without any empty slot)
            q = rng.choice((3, 3, 4)) if not (self.allow_big and rng.chance(1, 12 if tier == "thorough" else 40)) else 9
            r = 32 - q
            size = 1 << q
            uni = set()
            few = rng.chance(1, 2) or q == 9  # few distinct quotients -> one cluster wrapping the whole table
            quos = [rng.below(size) for _ in range(rng.between(1, 3))] if few else list(range(size))
            if q == 9:
                # one cluster that wraps the whole table and starts above slot 256
                quos = [size - 1 - rng.below(200)] + ([] if rng.chance(1, 2) else [rng.below(60)])
            while len(uni) < (size * rng.between(2, 4) if q != 9 else size + 40):
                uni.add((rng.choice(quos) << r) | rng.below(64 if q != 9 else 4096))
            uni = sorted(uni)
            if q == 9:
                # s surplus hashes at quotient q1 (> 256), s quotients without any hash right before q1, exactly one
                # hash for every other quotient: filling all of them gives ONE cluster that starts at q1, wraps around
                # the whole table, and in which every other run is displaced by up to s slots; spares come last
                q1 = size - 1 - rng.below(200)
                sgap = rng.between(1, 3)
                gaps = {(q1 - 1 - j) % size for j in range(sgap)}
                core = [(quo << r) | rng.below(4096) for quo in range(size) if quo not in gaps]
                core += [(q1 << r) | (5000 + j) for j in range(sgap)]
                spares = [(rng.below(size) << r) | (9000 + j) for j in range(24)]
                uni = core + spares
            cfg.update({"q": q, "auto_expand": False, "avoid_full": False, "uni": uni, "pressure": True,
                        "steps": self.max_steps if q != 9 else 14, "keyed": cfg["keyed"] and q != 9, "big9": q == 9})
        return cfg

    def gen_step(self, rng):
        cfg = self.cfg
        if self.n_gen >= cfg["steps"]:
            return None
        self.n_gen += 1
        U = len(cfg["uni"])
        r = rng.below(100)
        present = sorted(self.model)
        api = "key" if cfg["keyed"] and rng.chance(1, 2) else "alt"
        if cfg.get("big9"):
            if len(present) < self.f.size - 2:
                return {"op": "bulk", "is": list(range(U))}  # fill the table completely (the full-table guard stops it)
            if rng.chance(2, 3):
                h = rng.choice(present)
                return {"op": "remove", "i": cfg["uni"].index(h), "api": "alt"}
            return {"op": "add", "i": rng.below(U), "api": "alt"}
        if not present and not cfg.get("big") and rng.chance(1, 4):
            # merge into an EMPTY receiver (same or other quotient), then both filters go on living
            return {"op": "merge", "q": self.f.quotient if rng.chance(2, 3) else rng.between(3, 6),
                    "items": [rng.below(U) for _ in range(rng.between(1, 6))],
                    "poke": [rng.below(U) for _ in range(rng.between(1, 3))]}
        if r < 55 or not present:
            return {"op": "add", "i": rng.below(U), "api": api}
        if r >= 55 and r < 60 and U >= 20 and not cfg.get("pressure"):
            # many additions in one step, so that larger populations (and resizes of them) are reached in short histories
            return {"op": "bulk", "is": [rng.below(U) for _ in range(rng.between(10, 40))]}
        if r < 80:
            if rng.chance(4, 5):
                h = rng.choice(present)
                i = cfg["uni"].index(h) if h in cfg["uni"] else rng.below(U)
            else:
                i = rng.below(U)
            return {"op": "remove", "i": i, "api": api}
        if cfg.get("pressure") and r >= 80 and rng.chance(4, 5):
            present2 = sorted(self.model)
            if len(present2) >= self.f.size - 1 and present2:
                h = rng.choice(present2)
                return {"op": "remove", "i": cfg["uni"].index(h), "api": api}
            return {"op": "add", "i": rng.below(U), "api": api}
        if cfg.get("big"):
            if r < 90:
                return {"op": "add", "i": rng.below(U), "api": "alt"}
            if self.f.quotient < 18:
                return {"op": "resize", "q": self.f.quotient + 1}
            return {"op": "add", "i": rng.below(U), "api": "alt"}
        if r < 87:
            if rng.chance(3 if self.auto else 1, 4) and len(self.model) >= 4:
                # the smallest quotient the population still fits into: with auto_expand on, re-inserting crosses the
                # load threshold and a second, automatic resize happens INSIDE the manual one
                return {"op": "resize", "q": max(3, len(self.model).bit_length())}
            return {"op": "resize", "q": rng.between(3, min(Q_MAX, self.f.quotient + 2))}
        if r < 90:
            return {"op": "resize", "q": None}
        if r < 95:
            n = rng.between(1, 6)
            return {"op": "merge", "q": self.f.quotient if rng.chance(1, 2) else rng.between(3, 6),
                    "items": [rng.below(U) for _ in range(n)], "poke": [rng.below(U) for _ in range(rng.between(1, 3))]}
        if r < 96 and not cfg.get("big"):
            # the documented generator hashes(): obtained now, consumed after further updates / only partly / two at once
            return {"op": "walk", "mode": rng.choice(("late", "partial", "pair")), "i": rng.below(U), "api": "alt",
                    "take": rng.between(0, 3)}
        if r < 98:
            return {"op": "auto", "v": rng.chance(1, 2)}
        return {"op": "mlf", "v": rng.choice((0.5, 0.7, 0.85, 1.0, 1.5, 2.0))}

    # ------------------------------------------------------------------ world
    def setup(self, cfg):
        from probables import QuotientFilter

        seams.SURROGATE_OK = True  # the table-lookup strategy and the default FNV both work on any str
        self.cfg = cfg
        self.n_gen = 0
        self.ls = seams.line_seam()
        self.ls.enable()
        self.QF = QuotientFilter
        uni = cfg["uni"]
        self.key_hash = {seams.key_of(i): h for i, h in enumerate(uni)}  # '' and b'' are distinct keys

        def hf(key, seed=0):
            return self.key_hash.get(key, 0x5EED1234)

        self.hf = hf
        if cfg.get("default_hash"):
            self.hf = None
            self.ctx.probe("library_default_hash")
        self.f = QuotientFilter(quotient=cfg["q"], auto_expand=cfg["auto_expand"], hash_function=self.hf)
        self.f.max_load_factor = cfg["mlf"]
        self.auto = cfg["auto_expand"]
        self.mlf = cfg["mlf"]
        self.model = set()
        self.removed_from_full = False  # a stored hash was removed while all 2**q slots were in use
        self.claim_open = True  # closed once a mutating call raised (statement: sequences "that did not raise")
        self.max_lines = 0

    def teardown(self):
        seams.line_seam().disable()

    def call(self, fn, what, sig=None):
        """Run a public call under the step budget.  Returns (status, value)."""
        # a full scan costs ~15 line events per slot: the budget grows with the table (legitimate work), not with the data
        budget = BUDGET + 60 * max(self.f.size, 1 << (self.f.quotient + 1))
        try:
            v = self.ls.run(fn, budget=budget)
            if self.ls.n > self.max_lines:
                self.max_lines = self.ls.n
            return "ok", v
        except BudgetExceeded:
            self.ctx.fault("budget_exceeded")
            s = dict(sig or {})
            s.update(self.full_sig())
            raise Violation("hang", f"{what} did not return within {budget} library line events "
                                    f"(size {self.f.size}, {len(self.model)} stored)", s)
        except (Violation, HarnessError):
            raise
        except Exception as e:
            from probables.exceptions import QuotientFilterError
            from ..core import _raised_in_library

            if isinstance(e, QuotientFilterError):
                return "exc", e  # the documented refusal; callers decide whether it was due
            where = _raised_in_library(e)
            if where is None:
                raise
            s2 = dict(sig or {})
            s2.update(self.full_sig())
            s2["exception"] = type(e).__name__
            raise Violation("unexpected_exception", f"{what} raised {type(e).__name__}: {e} at {where} "
                                                    f"(size {self.f.size}, {len(self.model)} stored)", s2)

    def full_sig(self):
        return {"table_full": len(self.model) >= self.f.size, "auto_expand": bool(self.auto),
                "removed_from_full": self.removed_from_full}

    def will_autoresize(self):
        # the documented rule: grow before an add when auto_expand and load factor >= max_load_factor
        # the threshold is read from the object: the library puts it back to its default whenever the table is rebuilt
        # (resize), which no listed property speaks about
        return self.auto and (len(self.model) / self.f.size) >= self.f.max_load_factor

    def grows(self):
        """auto_expand with a threshold a table can reach (a load factor never exceeds 1)"""
        return self.auto and self.f.max_load_factor <= 1.0

    def layout(self):
        buf = io.StringIO()
        self.f.print(file=buf)
        rows = []
        for line in buf.getvalue().splitlines()[2:]:
            parts = line.split("\t")
            rows.append(parts[2])
        return rows

    # ------------------------------------------------------------------ apply
    allow_big = False  # wide tables (quotient 15..24): only where the oracle avoids full scans per step (C04)
    refusal_optional = False  # C04: its statement only speaks about calls that did not raise
    try_refusals = False  # C14/C19: also issue adds that must be refused (full table), then re-check their oracle
    hang_is_violation = False  # termination is C04's clause; elsewhere a call that does not return ends the run's claim

    def apply(self, step):
        if self.hang_is_violation:
            return self.apply_inner(step)
        if not self.claim_open:
            return "skip"
        try:
            return self.apply_inner(step)
        except Violation as v:
            if v.kind != "hang":
                raise
            self.claim_open = False
            self.ctx.count("call_did_not_return")
            return {"r": "hang"}

    def apply_inner(self, step):
        ctx = self.ctx
        op = step["op"]
        f = self.f
        cfg = self.cfg
        uni = cfg["uni"]
        ctx.count("op." + op)
        if op in ("add", "remove"):
            i = step["i"]
            if i >= len(uni):
                return "skip"
            h = uni[i]
            if op == "add":
                new = h not in self.model
                if new and not self.will_autoresize() and len(self.model) >= f.size:
                    if not self.try_refusals:
                        return "skip"  # legitimately raises: table full and it will not grow
                    # the documented refusal: must raise QuotientFilterError and change nothing
                    from probables.exceptions import QuotientFilterError

                    st, v = self.call(lambda: f.add_alt(h), f"add_alt({h:#x}) on a full table")
                    ctx.fault("add_refused_table_full")
                    if st == "ok" and self.refusal_optional:
                        # (C04) the call did not raise, so by the statement the hash counts as added
                        self.model.add(h)
                        self.observe(step)
                        return {"r": "accepted_on_full_table"}
                    if st != "exc" or not isinstance(v, QuotientFilterError):
                        raise Violation("refusal_missing", f"add of a new hash to a full table that cannot grow returned "
                                                           f"{v!r} instead of raising QuotientFilterError", self.full_sig())
                    self.observe(step)
                    return {"r": "refused"}
                if new and cfg["avoid_full"] and not self.will_autoresize() and len(self.model) + 1 >= f.size:
                    return "skip"  # this run stays clear of the 100%-full table
                if self.will_autoresize() and f.quotient >= Q_MAX + 2:
                    return "skip"
                if step["api"] == "key":
                    key = seams.key_of(i)
                    st, v = self.call(lambda: f.add(key), f"add(key {i})")
                else:
                    st, v = self.call(lambda: f.add_alt(h), f"add_alt({h:#x})")
                if st == "ok":
                    self.model.add(h)
            else:
                if h in self.model and len(self.model) >= f.size:
                    self.removed_from_full = True
                    ctx.probe("remove_from_100pct_full")
                if step["api"] == "key":
                    key = seams.key_of(i)
                    st, v = self.call(lambda: f.remove(key), f"remove(key {i})")
                else:
                    st, v = self.call(lambda: f.remove_alt(h), f"remove_alt({h:#x})")
                if st == "ok":
                    self.model.discard(h)
        elif op == "bulk":
            st = "ok"
            for i in step["is"]:
                if i >= len(uni):
                    continue
                h = uni[i]
                if h not in self.model and not self.will_autoresize() and len(self.model) + (2 if cfg["avoid_full"] else 1) > f.size:
                    continue
                if self.will_autoresize() and f.quotient >= Q_MAX + 2:
                    continue
                st, v = self.call(lambda: f.add_alt(h), f"add_alt({h:#x})")
                if st != "ok":
                    break
                self.model.add(h)
        elif op == "resize":
            q2 = step["q"]
            target = q2 if q2 is not None else f.quotient + 1
            if (target > Q_MAX + 2 and not cfg.get("big")) or target < 3 or target > 18:
                return "skip"
            if len(self.model) >= (1 << target):
                return "skip"  # legitimately refused
            if cfg["avoid_full"] and len(self.model) + 1 >= (1 << target) and not self.grows():
                return "skip"
            st, v = self.call(lambda: f.resize(q2), f"resize({q2})")
            if st == "ok":
                # with auto_expand on, re-inserting may legitimately grow the table further
                ok = f.size == (1 << target) if not self.auto else (f.size >= (1 << target) and f.size & (f.size - 1) == 0)
                if f.size > (1 << target):
                    ctx.probe("nested_auto_resize_inside_resize")
                if not ok or f.size != (1 << f.quotient):
                    raise Violation("resize_size", f"after resize({q2}) size={f.size} quotient={f.quotient}, "
                                                   f"requested {1 << target} (auto_expand={self.auto})", self.full_sig())
            ctx.fault("resize")
        elif op == "merge":
            items = [uni[i] for i in step["items"] if i < len(uni)]
            union = self.model | set(items)
            if not self.grows() and len(union) > f.size:
                if not self.try_refusals:
                    return "skip"
                # a merge that cannot fit must be refused (QuotientFilterError, possibly half-way); the filter that is
                # merged IN must come out of it untouched and usable, the receiver's content is taken from observation
                from probables.exceptions import QuotientFilterError

                second = self.QF(quotient=step["q"], auto_expand=True, hash_function=self.hf)
                for h in items:
                    second.add_alt(h)
                donor_before = sorted(second.get_hashes())
                st, v = self.call(lambda: f.merge(second), "merge that cannot fit")
                ctx.fault("merge_refused")
                if st != "exc" or not isinstance(v, QuotientFilterError):
                    raise Violation("refusal_missing", f"merge of {len(items)} hashes into a full table that cannot grow "
                                                       f"returned {v!r}", self.full_sig())
                try:
                    donor_after = sorted(second.get_hashes())
                    again = sorted(second.get_hashes())
                except Exception as e:
                    raise Violation("merge_modified_operand", f"after a refused merge the merged-in filter is unusable: "
                                                              f"get_hashes() raised {type(e).__name__}: {e}", self.full_sig())
                if donor_after != donor_before or again != donor_before or second.elements_added != len(donor_before):
                    raise Violation("merge_modified_operand", "a refused merge changed the filter that was being merged in",
                                    self.full_sig())
                for h in items:
                    if f.check_alt(h):
                        self.model.add(h)
                self.observe(step)
                return {"r": "refused"}
            if cfg["avoid_full"] and not self.grows() and len(union) >= f.size:
                return "skip"
            second = self.QF(quotient=step["q"], auto_expand=True, hash_function=self.hf)  # None = library default
            for h in items:
                second.add_alt(h)
            before2 = sorted(second.get_hashes())
            st, v = self.call(lambda: f.merge(second), "merge")
            if st == "ok":
                self.model |= set(items)
                # the two filters live on independently: updating the merged-in one must not show in the receiver
                # (observe() below compares the receiver with the model), and merge must not have changed it
                if sorted(second.get_hashes()) != before2:
                    raise Violation("merge_modified_operand", "merge() changed the filter that was merged in", self.full_sig())
                for h in step.get("poke", []):
                    if h < len(uni):
                        second.add_alt(uni[h])
                for h in before2[:2]:
                    second.remove_alt(h)
            ctx.fault("merge")
        elif op == "walk":
            i = step["i"]
            if i >= len(uni):
                return "skip"
            h = uni[i]
            settings = (bool(f.auto_expand), f.max_load_factor)
            it = f.hashes()
            it2 = f.hashes() if step["mode"] == "pair" else None
            head = []
            if step["mode"] != "late":
                for _ in range(step["take"]):
                    st, v = self.call(lambda: next(it, None), "next(hashes())")
                    if st == "ok" and v is not None:
                        head.append(v)
                if it2 is not None:
                    self.call(lambda: next(it2, None), "next(hashes())")
            ctx.fault("walk_" + step["mode"])
            if step["mode"] == "late":
                # an update between obtaining the generator and consuming it: what it yields is the content at the
                # time it is consumed (nothing has run before the first next())
                new = h not in self.model
                if not (new and not self.will_autoresize() and len(self.model) + 1 >= f.size) and not (
                        self.will_autoresize() and f.quotient >= Q_MAX + 2):
                    st, v = self.call(lambda: f.add_alt(h), f"add_alt({h:#x})")
                    if st == "ok":
                        self.model.add(h)
                st, got = self.call(lambda: sorted(it), "list(hashes())")
                if st == "ok" and got != sorted(self.model):
                    raise Violation("walk_wrong", f"hashes() obtained before add_alt({h:#x}) and consumed after it yields "
                                                  f"{[hex(x) for x in got][:12]}, stored {[hex(x) for x in sorted(self.model)][:12]}",
                                    self.full_sig())
            elif step["mode"] == "pair":
                # two walks in flight, finished in the other order than started, the rest dropped
                self.call(lambda: list(it), "list(hashes())")
                del it2
                import gc

                gc.collect()
            else:
                del it  # a walk that was started and abandoned
                import gc

                gc.collect()
            if step["mode"] != "late" and (bool(f.auto_expand), f.max_load_factor) != settings:
                raise Violation("query_changed_setting", f"walking hashes() ({step['mode']}) changed (auto_expand, "
                                                         f"max_load_factor) from {settings} to "
                                                         f"{(bool(f.auto_expand), f.max_load_factor)}", self.full_sig())
            st = "ok"
        elif op == "auto":
            f.auto_expand = step["v"]
            self.auto = bool(step["v"])
            st = "ok"
        elif op == "mlf":
            f.max_load_factor = step["v"]
            self.mlf = step["v"]
            st = "ok"
        else:
            raise HarnessError(op)
        if st == "exc":
            # The model's preconditions keep the generator away from every documented refusal (new hash into a full
            # table that will not grow, resize below the population or outside 3..31, merge that cannot fit), so a
            # QuotientFilterError here refuses a call the documentation allows.
            ctx.count("mutating_call_raised." + type(v).__name__)
            s2 = self.full_sig()
            s2["op"] = op
            raise Violation("valid_call_refused", f"{step} raised QuotientFilterError: {v} although the call is valid by the "
                                                  f"documentation (size {f.size}, {len(self.model)} stored, auto_expand="
                                                  f"{self.auto}, max_load_factor={self.mlf})", s2)
        if len(self.model) >= f.size:
            ctx.probe("table_100pct_full")
        self.observe(step)
        return {"r": "ok", "n": len(self.model), "size": f.size}

    def observe(self, step):
        """Hook: the property's oracle after a step that returned normally."""

    def simplify_step(self, step):
        if step.get("api") == "key":
            s = dict(step)
            s["api"] = "alt"
            yield s
        if step.get("op") == "merge" and len(step["items"]) > 1:
            for j in range(len(step["items"])):
                s = dict(step)
                s["items"] = step["items"][:j] + step["items"][j + 1:]
                yield s

    def simplify_config(self, cfg):
        if cfg["keyed"]:
            c = dict(cfg)
            c["keyed"] = False
            yield c
        if cfg["mlf"] != 0.85:
            c = dict(cfg)
            c["mlf"] = 0.85
            yield c
