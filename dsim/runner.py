"""dsim runner: tiers, process pool, determinism self-test, known findings,
minimisation, replay files, evidence, exit codes.

exit 0  property held on everything explored (KNOWN-FINDING lines possible)
exit 1  unlisted violation(s): "VIOLATION property=<id> replay=<path>"
exit 2  harness error (dead worker, watchdog, nondeterminism)
"""
import argparse
import faulthandler
import importlib
import json
import multiprocessing
import os
import subprocess
import sys
import time
import traceback
from concurrent.futures import ProcessPoolExecutor, as_completed

from . import core
from .core import HarnessError, canon, execute, mix

VERIF = os.path.dirname(os.path.dirname(os.path.abspath(__file__)))
CHUNK = 25
STATE_CAP = 2_000_000


def out_dir():
    """Where evidence/ and replays/ go: /verif, unless a sensitivity run redirects them (DSIM_OUT)."""
    return os.environ.get("DSIM_OUT") or VERIF


def load_prop(prop):
    mod = importlib.import_module(f"dsim.props.{prop.lower()}")
    return mod.SPEC


def scenario_for(spec, index):
    """Deterministic (index -> scenario class); independent of worker count."""
    tot = sum(w for w, _ in spec.scenarios)
    r = mix(index, "scn") % tot
    for w, cls in spec.scenarios:
        if r < w:
            return cls
        r -= w
    return spec.scenarios[-1][1]


def run_seed(base_seed, prop, index):
    return mix(base_seed, prop, index)


_WORKER = {}


def _worker_init(prop):
    core.import_repo()
    from . import seams

    seams.install_simrandom()
    _WORKER["spec"] = load_prop(prop)
    _WORKER["scratch"] = seams.worker_scratch_base()
    if hasattr(_WORKER["spec"], "worker_init"):
        _WORKER["spec"].worker_init()


def _worker_cleanup():
    import shutil

    sc = _WORKER.get("scratch")
    if sc and os.path.isdir(sc):
        shutil.rmtree(sc, ignore_errors=True)


_POOL_PIDS = set()


def sweep_own_scratch():
    """remove the scratch directories of this check's own pool workers (they are not given the chance to clean up
    after themselves) - and of nobody else: other checks may be running next to this one"""
    import shutil

    from . import seams

    root = os.path.dirname(seams.worker_scratch_base())
    for pid in sorted(_POOL_PIDS | {os.getpid()}):
        shutil.rmtree(os.path.join(root, f"dsim-{pid}"), ignore_errors=True)


def _one(spec, prop, base_seed, index, keep_events=False, tier="quick"):
    from . import seams

    cls = scenario_for(spec, index)
    seed = run_seed(base_seed, prop, index)
    seams.reseed_global(seed)
    os.environ["DSIM_TIER"] = tier
    res = execute(cls, seed=seed, keep_events=keep_events, scratch=_WORKER["scratch"])
    res.index = index
    return cls, res


def isolated(fn, *args):
    """Run fn(*args) in a forked child and return its (picklable) result.  The calling process never executes
    library code itself, so every chunk / replay starts from the same pristine process state: module-level caches,
    leaked descriptors, cwd or monkey-patches left behind by one chunk cannot reach the next one."""
    import pickle

    r, w = os.pipe()
    pid = os.fork()
    if pid == 0:
        try:
            os.close(r)
            faulthandler.dump_traceback_later(900, exit=True)
            try:
                res = ("ok", fn(*args))
            except BaseException as e:  # noqa: BLE001
                res = ("exc", f"{type(e).__name__}: {e}\n{traceback.format_exc()}")
            try:
                data = pickle.dumps(res)
            except Exception as e:  # unpicklable result
                data = pickle.dumps(("exc", f"unpicklable result: {e}"))
            with os.fdopen(w, "wb") as f:
                f.write(data)
        finally:
            os._exit(0)
    os.close(w)
    with os.fdopen(r, "rb") as f:
        data = f.read()
    os.waitpid(pid, 0)
    if not data:
        raise HarnessError("isolated child died without a result")
    kind, val = pickle.loads(data)
    if kind == "exc":
        raise HarnessError(val)
    return val


def _work(prop, base_seed, indices, tier, want_samples):
    if "spec" not in _WORKER:
        _worker_init(prop)
    return isolated(_work_chunk, prop, base_seed, indices, tier, want_samples)


def _work_chunk(prop, base_seed, indices, tier, want_samples):
    faulthandler.dump_traceback_later(600, exit=True)
    try:
        spec = _WORKER["spec"]
        out = {
            "runs": 0, "steps": 0, "events": 0, "counters": {}, "nontrivial_digests": [], "states": [],
            "violations": [], "fault_free_runs": 0, "fault_runs": 0, "samples": [], "by_scenario": {},
            "digests": {},
        }
        for idx in indices:
            keep = idx in want_samples
            cls, res = _one(spec, prop, base_seed, idx, keep_events=keep, tier=tier)
            out["runs"] += 1
            out["steps"] += len(res.steps)
            out["events"] += res.n_events
            out["by_scenario"][cls.__name__] = out["by_scenario"].get(cls.__name__, 0) + 1
            for k, v in res.counters.items():
                out["counters"][k] = out["counters"].get(k, 0) + v
            if res.fault_free:
                out["fault_free_runs"] += 1
            else:
                out["fault_runs"] += 1
            if res.nontrivial:
                out["nontrivial_digests"].append(int(res.digest[:16], 16))
            out["states"].extend(res.states)
            if keep:
                out["samples"].append({"index": idx, "scenario": cls.__name__, "seed": res.seed,
                                       "config": res.config, "events": res.events[1:41]})
            if idx < 64:
                out["digests"][idx] = res.digest
            if res.violation is not None:
                out["violations"].append({
                    "index": idx, "seed": res.seed, "scenario": cls.__name__, "config": res.config,
                    "steps": res.steps, "violation": res.violation,
                    "chunk_before": [i for i in indices if i < idx],
                })
        return out
    finally:
        faulthandler.cancel_dump_traceback_later()


# ------------------------------------------------------------------ known findings


def load_known():
    p = os.path.join(VERIF, "known_findings.json")
    if not os.path.exists(p):
        return {"open": [], "fixed": []}
    with open(p) as f:
        return json.load(f)


def match_known(known, viol):
    """Return the open entry that lists exactly this violation, else None."""
    for ent in known.get("open", []):
        if ent.get("property") != viol["property"]:
            continue
        m = ent.get("match", {})
        if "kind" in m and m["kind"] != viol["kind"]:
            continue
        ok = True
        for k, v in m.items():
            if k == "kind":
                continue
            if viol.get("signature", {}).get(k) != v:
                ok = False
                break
        if ok:
            return ent
    return None


# ------------------------------------------------------------------ replay files


def scenario_by_name(spec, name):
    for _, cls in spec.scenarios:
        if cls.__name__ == name:
            return cls
    raise HarnessError(f"no scenario {name} in {spec.prop}")


def replay_raw(spec, rec, scratch):
    """Replay in THIS process: optional prefix runs first (earlier runs of the same chunk whose left-over process
    state the violation depends on), then the run itself."""
    from . import seams

    for pre in rec.get("prefix_runs") or []:
        seams.reseed_global(pre.get("seed") or 0)
        execute(scenario_by_name(spec, pre["scenario"]), seed=pre.get("seed"), config=pre["config"], steps=pre["steps"],
                scratch=scratch)
    cls = scenario_by_name(spec, rec["scenario"])
    seams.reseed_global(rec.get("seed") or 0)
    return execute(cls, seed=rec.get("seed"), config=rec["config"], steps=rec["steps"], scratch=scratch,
                   keep_events=True)


def replay_once(spec, rec, scratch):
    """Replay in a forked child, so that consecutive replays (shrinking!) cannot influence each other."""
    return isolated(replay_raw, spec, rec, scratch)


def regen_runs(spec, prop, base_seed, indices, tier):
    """Last-resort replay: re-execute the given run indices in GENERATED mode (same code path, same allocation
    pattern as the original chunk) and return the result of the last one."""
    res = None
    for idx in indices:
        _, res = _one(spec, prop, base_seed, idx, keep_events=(idx == indices[-1]), tier=tier)
    return res


def capture_prefix(spec, prop, base_seed, indices, tier, scratch):
    """Re-execute the given run indices (generated mode) and return them as concrete replayable records."""
    out = []
    for idx in indices:
        cls, res = _one(spec, prop, base_seed, idx, tier=tier)
        out.append({"scenario": cls.__name__, "seed": res.seed, "index": idx, "config": res.config, "steps": res.steps})
    return out


def write_replay(spec, rec, res, path):
    doc = {
        "property": spec.prop, "scenario": rec["scenario"], "seed": rec.get("seed"), "index": rec.get("index"),
        "config": res.config, "steps": res.steps, "violation": res.violation, "digest": res.digest,
        "note": "replay executes the listed steps; nothing is regenerated from the PRNG",
    }
    if rec.get("prefix_runs"):
        doc["prefix_runs"] = rec["prefix_runs"]
        doc["note"] += ("; prefix_runs are earlier runs of the same process whose left-over state (e.g. a module-level "
                        "cache) the violation needs - they are executed first, in the same process")
    os.makedirs(os.path.dirname(path), exist_ok=True)
    with open(path, "w") as f:
        json.dump(doc, f, indent=1, default=core._json_default)
    return doc


def cmd_replay(prop, path, quiet=False):
    core.import_repo()
    from . import seams

    seams.install_simrandom()
    spec = load_prop(prop)
    if hasattr(spec, "worker_init"):
        spec.worker_init()
    with open(path) as f:
        rec = json.load(f)
    scratch = seams.worker_scratch_base()
    _WORKER["spec"] = spec
    _WORKER["scratch"] = scratch
    try:
        if rec.get("regen"):
            g = rec["regen"]
            res = regen_runs(spec, prop, g["base_seed"], g["indices"], g["tier"])
        else:
            res = replay_raw(spec, rec, scratch)
    finally:
        import shutil

        shutil.rmtree(scratch, ignore_errors=True)
    if res.violation is None:
        print(f"replay of {path}: no violation (digest {res.digest})")
        return 0
    same = rec.get("digest") in (None, res.digest)
    if not quiet:
        for ev in res.events[-12:]:
            print("  ", canon(ev)[:300])
    print(f"replay digest {res.digest} {'== recorded' if same else '!= recorded ' + str(rec.get('digest'))}")
    print(f"reproduced kind={res.violation['kind']} detail={res.violation['detail'][:300]}")
    known = load_known()
    ent = match_known(known, res.violation)
    if ent is not None:
        print(f"KNOWN-FINDING: property={prop} {ent['id']}: {ent['what']}")
        return 0
    print(f"VIOLATION property={prop} replay={path}")
    return 1


# ------------------------------------------------------------------ determinism self-test


def digests_for(prop, base_seed, indices, tier):
    core.import_repo()
    from . import seams

    seams.install_simrandom()
    _worker_init(prop)
    spec = _WORKER["spec"]
    out = {}
    try:
        for idx in indices:
            _, res = _one(spec, prop, base_seed, idx, tier=tier)
            out[str(idx)] = res.digest
    finally:
        _worker_cleanup()
    return out


def fresh_digests(prop, base_seed, indices, tier, hashseed):
    env = dict(os.environ)
    env["PYTHONHASHSEED"] = str(hashseed)
    env["DSIM_REEXEC"] = "1"
    cmd = [sys.executable, os.path.join(VERIF, "check"), prop, "--digests", ",".join(map(str, indices)),
           "--seed", str(base_seed), "--tier", tier]
    p = subprocess.run(cmd, env=env, capture_output=True, text=True, timeout=900)
    if p.returncode != 0:
        raise HarnessError(f"digest subprocess failed: {p.stderr[-2000:]}")
    return json.loads(p.stdout.strip().splitlines()[-1])


# ------------------------------------------------------------------ main check


def cmd_check(prop, tier, base_seed, workers, runs_override=None, wall_cap=None, selftest_n=None):
    t0 = time.time()
    core.import_repo()
    spec = load_prop(prop)
    if hasattr(spec, "prepare"):
        spec.prepare()
    n_runs = runs_override if runs_override is not None else spec.runs[tier]
    if wall_cap is None:
        wall_cap = spec.wall_cap.get(tier, 3000) if hasattr(spec, "wall_cap") else (240 if tier == "quick" else 3000)
    indices = list(range(n_runs))
    chunk = getattr(spec, "chunk", CHUNK)
    chunks = [indices[i:i + chunk] for i in range(0, n_runs, chunk)]
    want_samples = {0, 1, 2}
    agg = {
        "runs": 0, "steps": 0, "events": 0, "counters": {}, "fault_free_runs": 0, "fault_runs": 0,
        "samples": [], "by_scenario": {},
    }
    nontriv = set()
    states = set()
    states_capped = False
    violations = []
    first_digests = {}
    truncated = False
    ctx = multiprocessing.get_context("fork")
    harness_error = None
    with ProcessPoolExecutor(max_workers=workers, mp_context=ctx) as ex:
        pending = {}
        it = iter(chunks)
        try:
            def submit_more():
                nonlocal truncated
                while len(pending) < workers * 2:
                    if time.time() - t0 > wall_cap:
                        truncated = True
                        return
                    try:
                        ch = next(it)
                    except StopIteration:
                        return
                    fut = ex.submit(_work, prop, base_seed, ch, tier, want_samples)
                    pending[fut] = ch

            submit_more()
            while pending:
                _POOL_PIDS.update(getattr(ex, "_processes", None) or {})
                done = None
                for fut in as_completed(list(pending), timeout=900):
                    done = fut
                    break
                ch = pending.pop(done)
                out = done.result()
                agg["runs"] += out["runs"]
                agg["steps"] += out["steps"]
                agg["events"] += out["events"]
                agg["fault_free_runs"] += out["fault_free_runs"]
                agg["fault_runs"] += out["fault_runs"]
                for k, v in out["counters"].items():
                    agg["counters"][k] = agg["counters"].get(k, 0) + v
                for k, v in out["by_scenario"].items():
                    agg["by_scenario"][k] = agg["by_scenario"].get(k, 0) + v
                nontriv.update(out["nontrivial_digests"])
                if len(states) < STATE_CAP:
                    states.update(out["states"])
                else:
                    states_capped = True
                agg["samples"].extend(out["samples"])
                first_digests.update(out["digests"])
                violations.extend(out["violations"])
                if len(violations) > 200:
                    truncated = True
                    for f in pending:
                        f.cancel()
                    pending.clear()
                    break
                submit_more()
        except Exception as e:  # dead worker, timeout ...
            harness_error = f"{type(e).__name__}: {e}\n{traceback.format_exc()}"
            for f in pending:
                f.cancel()
    if harness_error:
        print(f"HARNESS-ERROR property={prop}: {harness_error}", file=sys.stderr)
        return 2

    # -------- the same property under `python -O` (assert statements stripped): a slice of the run indices is executed
    # again in an optimised interpreter; digests must equal the normal ones and violations found there are reported
    opt = {"runs": 0, "violations": 0, "digest_mismatches": 0}
    n_opt = min(n_runs, getattr(spec, "opt_slice", {}).get(tier, 150 if tier == "quick" else 1500))
    if n_opt and not os.environ.get("DSIM_NO_OPT"):
        env = dict(os.environ, DSIM_REEXEC="1", PYTHONOPTIMIZE="1", PYTHONHASHSEED="0")
        try:
            pr = subprocess.run([sys.executable, os.path.join(VERIF, "check"), prop, "--slice", f"0:{n_opt}", "--seed",
                                 str(base_seed), "--tier", tier], env=env, capture_output=True, text=True, timeout=1800)
            line = [l for l in pr.stdout.splitlines() if l.startswith("SLICE-JSON ")]
            if pr.returncode != 0 or not line:
                raise HarnessError(f"-O slice failed: {pr.stderr[-1500:]}")
            so = json.loads(line[-1][len("SLICE-JSON "):])
        except HarnessError as e:
            print(f"HARNESS-ERROR property={prop}: {e}", file=sys.stderr)
            return 2
        opt["runs"] = so["runs"]
        for k, d in so["digests"].items():
            if int(k) in first_digests and first_digests[int(k)] != d and not any(v["index"] == int(k) for v in so["violations"]):
                opt["digest_mismatches"] += 1
                print(f"NONDETERMINISM property={prop} index={k}: digest under python -O differs", file=sys.stderr)
        for v in so["violations"]:
            v["python_flags"] = ["-O"]
            v["violation"].setdefault("signature", {})["python_O"] = True
            if not any(x["index"] == v["index"] and x["violation"]["kind"] == v["violation"]["kind"] for x in violations):
                violations.append(v)
                opt["violations"] += 1
        if opt["digest_mismatches"] and not violations:
            return 2

    # -------- determinism self-test: same seeds again, fresh interpreter, other PYTHONHASHSEED
    st_n = selftest_n if selftest_n is not None else spec.selftest.get(tier, 8)
    st_idx = [i for i in range(min(st_n, n_runs, 64)) if i in first_digests or str(i) in first_digests]
    selftest = {"seeds": len(st_idx), "mismatches": 0, "hashseed": 12345}
    if st_idx:
        try:
            other = fresh_digests(prop, base_seed, st_idx, tier, 12345)
        except Exception as e:
            print(f"HARNESS-ERROR property={prop}: selftest: {e}", file=sys.stderr)
            return 2
        for i in st_idx:
            a = first_digests.get(i, first_digests.get(str(i)))
            if other.get(str(i)) != a:
                selftest["mismatches"] += 1
                print(f"NONDETERMINISM property={prop} index={i} {a} vs {other.get(str(i))}", file=sys.stderr)
        if selftest["mismatches"] and not violations:
            return 2

    # -------- triage violations: known finding or alarm (minimised, confirmed in a fresh process)
    known = load_known()
    known_hits = {}
    alarms = []
    seen_classes = {}
    for v in sorted(violations, key=lambda v: v["index"]):
        ent = match_known(known, v["violation"])
        if ent is not None:
            known_hits.setdefault(ent["id"], [ent, 0, v])
            known_hits[ent["id"]][1] += 1
            continue
        cls_key = (v["violation"]["kind"], canon(v["violation"].get("signature", {})))
        seen_classes.setdefault(cls_key, []).append(v)
    from . import seams, shrink

    if seen_classes:
        seams.install_simrandom()
        _worker_init(prop)
    try:
        for cls_key, vs in sorted(seen_classes.items())[:6]:
            v = min(vs, key=lambda x: len(x["steps"]))
            rec = {"scenario": v["scenario"], "seed": v["seed"], "index": v["index"], "config": v["config"],
                   "steps": v["steps"]}
            path = os.path.join(out_dir(), "replays", f"{prop}-{v['violation']['kind']}-{v['seed']:016x}.json")
            if v.get("python_flags"):
                # seen under `python -O` only: the replay file says so and is confirmed in an optimised interpreter
                doc = {"property": spec.prop, "scenario": v["scenario"], "seed": v["seed"], "index": v["index"],
                       "config": v["config"], "steps": v["steps"], "violation": v["violation"], "digest": None,
                       "python_flags": ["-O"],
                       "note": "found with assert statements stripped (python -O / PYTHONOPTIMIZE=1); replay with "
                               "`PYTHONOPTIMIZE=1 ./check %s --replay <file>`; not minimised" % prop}
                os.makedirs(os.path.dirname(path), exist_ok=True)
                with open(path, "w") as f:
                    json.dump(doc, f, indent=1, default=core._json_default)
                if confirm_fresh(prop, path, v["violation"]["kind"], optimise=True):
                    alarms.append({"kind": v["violation"]["kind"], "count": len(vs), "replay": path,
                                   "detail": v["violation"]["detail"][:400], "steps_before": len(v["steps"]),
                                   "steps_after": len(v["steps"]), "shrink": {"mode": "none (python -O)"}})
                    continue
            base = replay_once(spec, rec, _WORKER["scratch"])
            if (base.violation is None or base.violation["kind"] != v["violation"]["kind"]) and v.get("chunk_before"):
                # not reproducible alone: the violation needs process state left behind by earlier runs of its chunk
                rec["prefix_runs"] = isolated(capture_prefix, spec, prop, base_seed, v["chunk_before"], tier,
                                              _WORKER["scratch"])
                base = replay_once(spec, rec, _WORKER["scratch"])
            if base.violation is None or base.violation["kind"] != v["violation"]["kind"]:
                # neither alone nor behind its chunk's earlier runs: the violation depends on process state that only the
                # original execution path reproduces (e.g. object addresses).  Re-generate the chunk from the seed.
                idxs = list(v.get("chunk_before") or []) + [v["index"]]
                again = isolated(regen_runs, spec, prop, base_seed, idxs, tier)
                if again is not None and again.violation is not None and again.violation["kind"] == v["violation"]["kind"]:
                    doc = {"property": spec.prop, "scenario": v["scenario"], "seed": v["seed"], "index": v["index"],
                           "regen": {"base_seed": base_seed, "indices": idxs, "tier": tier},
                           "config": again.config, "steps": again.steps, "violation": again.violation,
                           "digest": again.digest,
                           "note": "this violation reproduces only when the whole chunk of runs is re-generated from the "
                                   "seed in one process (it depends on process state such as object addresses); replay "
                                   "re-generates run indices `regen.indices` under PYTHONHASHSEED=0; not minimised"}
                    os.makedirs(os.path.dirname(path), exist_ok=True)
                    with open(path, "w") as f:
                        json.dump(doc, f, indent=1, default=core._json_default)
                    if confirm_fresh(prop, path, v["violation"]["kind"], hashseed="0"):
                        alarms.append({"kind": v["violation"]["kind"], "count": len(vs), "replay": path,
                                       "detail": again.violation["detail"][:400], "steps_before": len(again.steps),
                                       "steps_after": len(again.steps), "shrink": {"mode": "regen"}})
                        continue
            if base.violation is None or base.violation["kind"] != v["violation"]["kind"]:
                # Observed during generation, but no replay strategy reproduces it: the outcome depends on process state
                # the simulator cannot pin down (typically object addresses / allocator state).  The observation itself
                # is real, so it is reported - with the recorded trace and an explicit "reproducible: false".
                doc = {"property": spec.prop, "scenario": v["scenario"], "seed": v["seed"], "index": v["index"],
                       "config": v["config"], "steps": v["steps"], "violation": v["violation"], "reproducible": False,
                       "regen": {"base_seed": base_seed, "indices": list(v.get("chunk_before") or []) + [v["index"]],
                                 "tier": tier},
                       "note": "recorded trace of a violation seen in a generated run (class seen %d times in this check "
                               "run); replaying it alone, behind its chunk's earlier runs, and by re-generating the "
                               "chunk did not reproduce it: the behaviour depends on process state outside the "
                               "simulator's seams (e.g. id() reuse)" % len(vs)}
                os.makedirs(os.path.dirname(path), exist_ok=True)
                with open(path, "w") as f:
                    json.dump(doc, f, indent=1, default=core._json_default)
                print(f"NONREPRODUCIBLE property={prop}: generated run index={v['index']} kind={v['violation']['kind']} "
                      f"did not replay; reporting the recorded trace", file=sys.stderr)
                alarms.append({"kind": v["violation"]["kind"], "count": len(vs), "replay": path,
                               "detail": v["violation"]["detail"][:400], "steps_before": len(v["steps"]),
                               "steps_after": len(v["steps"]), "shrink": {"mode": "none (not reproducible)"}})
                continue
            if False:
                print(f"HARNESS-ERROR property={prop}: generated run index={v['index']} does not replay "
                      f"({v['violation']['kind']} -> {base.violation})", file=sys.stderr)
                return 2
            small, stats = shrink.minimise(spec, rec, v["violation"]["kind"], _WORKER["scratch"],
                                           budget_s=45 if tier == "quick" else 90, known=known)
            res = replay_once(spec, small, _WORKER["scratch"])
            write_replay(spec, small, res, path)
            ok = confirm_fresh(prop, path, v["violation"]["kind"])
            if not ok:
                # keep the unminimised trace instead; discrepancy is a harness defect to look at
                print(f"HARNESS-WARNING property={prop}: minimised replay did not reproduce in a fresh process; "
                      f"falling back to the full trace", file=sys.stderr)
                write_replay(spec, rec, base, path)
                if not confirm_fresh(prop, path, v["violation"]["kind"]):
                    # reproduces inside this process tree but not in a fresh interpreter: depends on process state
                    # outside the seams (object addresses, allocator).  Reported with the recorded trace, flagged.
                    with open(path) as f:
                        doc = json.load(f)
                    doc["reproducible"] = False
                    doc["note"] = ("recorded trace; it reproduced when replayed in a forked child of the checking process "
                                   "but not in a fresh interpreter - the behaviour depends on process state outside the "
                                   "simulator's seams (e.g. id() reuse)")
                    with open(path, "w") as f:
                        json.dump(doc, f, indent=1, default=core._json_default)
                    print(f"NONREPRODUCIBLE property={prop}: kind={v['violation']['kind']} does not reproduce in a fresh "
                          f"process; reporting the recorded trace", file=sys.stderr)
                    alarms.append({"kind": v["violation"]["kind"], "count": len(vs), "replay": path,
                                   "detail": v["violation"]["detail"][:400], "steps_before": len(rec["steps"]),
                                   "steps_after": len(rec["steps"]), "shrink": {"mode": "none (not reproducible)"}})
                    continue
            alarms.append({"kind": v["violation"]["kind"], "count": len(vs), "replay": path,
                           "detail": res.violation["detail"][:400] if res.violation else "",
                           "steps_before": len(rec["steps"]), "steps_after": len(small["steps"]), "shrink": stats})
    finally:
        if seen_classes:
            _worker_cleanup()

    wall = time.time() - t0
    ev = build_evidence(spec, prop, tier, base_seed, agg, nontriv, states, states_capped, truncated, selftest,
                        known_hits, alarms, wall, n_runs, workers, opt)
    os.makedirs(os.path.join(out_dir(), "evidence"), exist_ok=True)
    with open(os.path.join(out_dir(), "evidence", f"{prop}.json"), "w") as f:
        json.dump(ev, f, indent=1, default=core._json_default)
    if tier == "thorough" and runs_override is None:
        # keep the last full thorough result next to the (quick) evidence file that every run rewrites
        os.makedirs(os.path.join(out_dir(), "evidence_thorough"), exist_ok=True)
        with open(os.path.join(out_dir(), "evidence_thorough", f"{prop}.json"), "w") as f:
            json.dump(ev, f, indent=1, default=core._json_default)

    print(f"{prop} tier={tier} seed={base_seed} runs={agg['runs']} steps={agg['steps']} "
          f"distinct_nontrivial={len(nontriv)} states={len(states)} wall={wall:.1f}s "
          f"faults={ {k[6:]: v for k, v in sorted(agg['counters'].items()) if k.startswith('fault.')} }")
    for kid, (ent, n, v) in sorted(known_hits.items()):
        print(f"KNOWN-FINDING: property={prop} {kid}: {ent['what']} (hit {n} times this run)")
    for a in alarms:
        print(f"  violation kind={a['kind']} count={a['count']} steps {a['steps_before']}->{a['steps_after']}: "
              f"{a['detail'][:300]}")
        print(f"VIOLATION property={prop} replay={a['replay']}")
    sweep_own_scratch()
    if alarms:
        return 1
    if opt["digest_mismatches"] or selftest["mismatches"]:
        return 2  # event logs differed between interpreters and nothing else was found: not a result to believe
    return 0


def confirm_fresh(prop, path, kind, hashseed="777", optimise=False):
    env = dict(os.environ)
    env["PYTHONHASHSEED"] = hashseed
    if optimise:
        env["PYTHONOPTIMIZE"] = "1"
    env["DSIM_REEXEC"] = "1"
    p = subprocess.run([sys.executable, os.path.join(VERIF, "check"), prop, "--replay", path, "--quiet"],
                       env=env, capture_output=True, text=True, timeout=600)
    return p.returncode == 1 and f"reproduced kind={kind} " in p.stdout and "== recorded" in p.stdout


def build_evidence(spec, prop, tier, base_seed, agg, nontriv, states, states_capped, truncated, selftest,
                   known_hits, alarms, wall, n_planned, workers, opt_info=None):
    c = agg["counters"]
    faults = {k[6:]: v for k, v in sorted(c.items()) if k.startswith("fault.")}
    probes = {k[6:]: v for k, v in sorted(c.items()) if k.startswith("probe.")}
    ops = {k[3:]: v for k, v in sorted(c.items()) if k.startswith("op.")}
    other = {k: v for k, v in sorted(c.items()) if not k.startswith(("fault.", "probe.", "op."))}
    samples = sorted(agg["samples"], key=lambda s: s["index"])[:3]
    cov = {
        "evaluations": agg["runs"],
        "distinct_nontrivial": len(nontriv),
        "rule": spec.rule,
        "samples": samples,
        "steps": agg["steps"],
        "events": agg["events"],
        "operations_by_kind": ops,
        "faults_fired_by_kind": faults,
        "reach_probes": probes,
        "other_counters": other,
        "distinct_abstract_states": len(states),
        "distinct_abstract_states_capped": states_capped,
        "abstract_state_measure": getattr(spec, "state_measure", "n/a"),
        "runs_by_scenario": agg["by_scenario"],
        "fault_free_runs": agg["fault_free_runs"],
        "fault_injecting_runs": agg["fault_runs"],
        "runs_planned": n_planned,
        "truncated_by_wall_cap": truncated,
        "runs_per_hour": int(agg["runs"] / wall * 3600) if wall > 0 else 0,
        "seeds": {"VERIF_SEED": base_seed, "derivation": "mix(VERIF_SEED, property, run index), SplitMix64",
                  "run_indices": [0, max(0, agg["runs"] - 1)]},
        "workers": workers,
        "simulated_time": "n/a (no clock, timer or deadline in the library; logical steps only)",
        "real_components": spec.real_components,
        "stubbed_components": spec.stubbed_components,
        "determinism_selftest": selftest,
        "python_O_slice": opt_info,
        "known_findings_hit": {k: n for k, (e, n, v) in known_hits.items()},
        "alarms": alarms,
        "exhaustive": False,
    }
    if hasattr(spec, "extra_evidence"):
        cov.update(spec.extra_evidence(agg))
    return {
        "property_id": prop, "tier": tier, "seed": base_seed, "level": spec.level, "coverage": cov,
        "assumptions": spec.assumptions, "wall_s": round(wall, 2), "violations": len(alarms),
    }


def main(argv=None):
    ap = argparse.ArgumentParser(prog="check")
    ap.add_argument("prop")
    ap.add_argument("--tier", default=os.environ.get("VERIF_TIER", "quick"), choices=["quick", "thorough"])
    ap.add_argument("--seed", type=int, default=int(os.environ.get("VERIF_SEED", "0") or 0))
    ap.add_argument("--workers", type=int, default=int(os.environ.get("DSIM_WORKERS", "0") or 0))
    ap.add_argument("--runs", type=int, default=None)
    ap.add_argument("--replay", default=None)
    ap.add_argument("--quiet", action="store_true")
    ap.add_argument("--digests", default=None, help="internal: print digests of the given run indices")
    ap.add_argument("--slice", default=None, help="internal: run indices a:b in this interpreter and print a JSON summary")
    ap.add_argument("--selftest", type=int, default=None, help="number of seeds for the determinism self-test")
    ap.add_argument("--wall-cap", type=float, default=None)
    a = ap.parse_args(argv)
    prop = a.prop.upper()
    if os.environ.get("PYTHONHASHSEED") is None and not os.environ.get("DSIM_REEXEC"):
        env = dict(os.environ)
        env["PYTHONHASHSEED"] = "0"
        env["DSIM_REEXEC"] = "1"
        os.execve(sys.executable, [sys.executable, os.path.join(VERIF, "check")] + list(sys.argv[1:]), env)
    workers = a.workers or min(16, os.cpu_count() or 1)
    try:
        if a.digests is not None:
            idx = [int(x) for x in a.digests.split(",") if x]
            print(json.dumps(digests_for(prop, a.seed, idx, a.tier)))
            return 0
        if a.slice is not None:
            lo, hi = [int(x) for x in a.slice.split(":")]
            core.import_repo()
            _worker_init(prop)
            try:
                out = _work(prop, a.seed, list(range(lo, hi)), a.tier, set())
            finally:
                _worker_cleanup()
            out["states"] = []
            out["nontrivial_digests"] = []
            print("SLICE-JSON " + json.dumps(out, default=core._json_default))
            return 0
        if a.replay:
            return cmd_replay(prop, a.replay, quiet=a.quiet)
        return cmd_check(prop, a.tier, a.seed, workers, a.runs, a.wall_cap, a.selftest)
    except HarnessError as e:
        print(f"HARNESS-ERROR property={prop}: {e}", file=sys.stderr)
        return 2
    except Exception:
        print(f"HARNESS-ERROR property={prop}: {traceback.format_exc()}", file=sys.stderr)
        return 2
