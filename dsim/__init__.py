"""dsim - deterministic simulation with fault injection for barrust/pyprobables."""
