"""dsim core: the single PRNG, violations, the run context, and the run loop.

One integer decides everything: run i of property P draws every choice from
Rng(mix(VERIF_SEED, P, i)).  Replay executes a recorded list of concrete steps
and draws nothing.
"""
import hashlib
import json
import os
import sys

MASK = (1 << 64) - 1


def _sm64(x):
    x = (x + 0x9E3779B97F4A7C15) & MASK
    z = x
    z = ((z ^ (z >> 30)) * 0xBF58476D1CE4E5B9) & MASK
    z = ((z ^ (z >> 27)) * 0x94D049BB133111EB) & MASK
    return x, z ^ (z >> 31)


def mix(*parts):
    """Deterministic 64-bit mix of ints / strings (no hash(), no PYTHONHASHSEED)."""
    h = 0x243F6A8885A308D3
    for p in parts:
        if isinstance(p, str):
            p = int.from_bytes(hashlib.sha256(p.encode()).digest()[:8], "big")
        h ^= p & MASK
        h, out = _sm64(h)
        h ^= out
    return _sm64(h)[1]


class Rng:
    """SplitMix64; the only source of choices in a generated run."""

    __slots__ = ("s", "draws")

    def __init__(self, seed):
        self.s = seed & MASK
        self.draws = 0

    def u64(self):
        self.s, out = _sm64(self.s)
        self.draws += 1
        return out

    def below(self, n):
        return self.u64() % n

    def between(self, lo, hi):
        return lo + self.u64() % (hi - lo + 1)

    def chance(self, num, den):
        return self.u64() % den < num

    def choice(self, seq):
        return seq[self.u64() % len(seq)]

    def weighted(self, pairs):
        """pairs: list of (weight, value)"""
        tot = sum(w for w, _ in pairs)
        r = self.u64() % tot
        for w, v in pairs:
            if r < w:
                return v
            r -= w
        return pairs[-1][1]

    def fork(self, label):
        return Rng(mix(self.u64(), label))


class Violation(Exception):
    """The property under check does not hold on this run."""

    def __init__(self, kind, detail="", signature=None):
        super().__init__(f"{kind}: {detail}")
        self.kind = kind
        self.detail = detail
        self.signature = dict(signature or {})


class HarnessError(Exception):
    """The machinery itself is wrong (never reported as a VIOLATION)."""


class SimAbort(BaseException):
    """Raised from a seam into library code (budget overrun, simulated kill).
    BaseException so that no `except Exception` in the library swallows it."""


class BudgetExceeded(SimAbort):
    pass


class SimKill(SimAbort):
    pass


def canon(obj):
    return json.dumps(obj, sort_keys=True, separators=(",", ":"), default=_json_default)


def _json_default(o):
    if isinstance(o, (bytes, bytearray)):
        return {"__b": bytes(o).hex()}
    if isinstance(o, (set, frozenset)):
        return sorted(o)
    raise TypeError(f"not json-able: {type(o)}")


def short_hash(b):
    if isinstance(b, str):
        b = b.encode()
    return hashlib.sha256(b).hexdigest()[:16]


class Ctx:
    """Per-run context: event log, counters (faults fired, ops, probes), abstract states."""

    def __init__(self, keep_events=False):
        self.h = hashlib.sha256()
        self.n_events = 0
        self.counters = {}
        self.states = set()
        self.keep_events = keep_events
        self.events = []
        self.nontrivial = False
        self.fault_free = True
        self.scratch = None  # set by runner: a per-worker scratch directory

    def event(self, ev):
        s = canon(ev)
        self.h.update(s.encode())
        self.h.update(b"\n")
        self.n_events += 1
        if self.keep_events and len(self.events) < 400:
            self.events.append(json.loads(s))

    def count(self, name, n=1):
        self.counters[name] = self.counters.get(name, 0) + n

    def fault(self, kind, n=1):
        """A fault / schedule decision actually FIRED (not merely configured)."""
        self.counters["fault." + kind] = self.counters.get("fault." + kind, 0) + n
        self.fault_free = False

    def probe(self, name, n=1):
        self.counters["probe." + name] = self.counters.get("probe." + name, 0) + n

    def state(self, *parts):
        self.states.add(mix(*[p if isinstance(p, int) else str(p) for p in parts]))

    def digest(self):
        return self.h.hexdigest()


class Scenario:
    """One world + one property's oracle.  Subclasses implement the five hooks.

    A step is a JSON-able dict that is fully concrete: replay = setup(config) and
    apply(step) for each listed step.  apply() re-evaluates its own precondition
    against the model and returns "skip" when it does not hold (shrinking may
    have removed the steps that established it).
    """

    prop = "C00"
    max_steps = 40

    def __init__(self, ctx):
        self.ctx = ctx

    def gen_config(self, rng):
        raise NotImplementedError

    def setup(self, cfg):
        raise NotImplementedError

    def gen_step(self, rng):
        raise NotImplementedError

    def apply(self, step):
        raise NotImplementedError

    def finish(self):
        pass

    def teardown(self):
        pass

    # a second live structure of the subject's class with slightly different parameters (worlds built on
    # structs.Subject): steps flagged "nb" hand their add / push to it as well.  Nothing is asserted about the
    # neighbour; what is asserted about the subject must hold whatever the neighbour does.
    def neighbour_step(self, st):
        if not st.get("nb"):
            return
        nb = getattr(getattr(self, "sub", None), "nb", None)
        if nb is None:
            return
        m = st.get("m") if isinstance(st.get("m"), dict) else st
        if m.get("op") not in ("add", "push"):
            return
        if nb.obj is None:
            nb.build()
        nb.apply_op(dict(m))
        self.ctx.fault("neighbour_op")

    def close_neighbour(self):
        nb = getattr(getattr(self, "sub", None), "nb", None)
        if nb is not None:
            try:
                nb.close()
            except Exception:
                pass

    # shrinking aids (optional)
    def simplify_step(self, step):
        """yield simpler variants of a step"""
        return ()

    def simplify_config(self, cfg):
        return ()


class RunResult:
    __slots__ = (
        "seed", "index", "config", "steps", "violation", "digest", "counters", "states",
        "nontrivial", "fault_free", "n_events", "events", "error",
    )

    def __init__(self):
        self.seed = None
        self.index = None
        self.config = None
        self.steps = []
        self.violation = None
        self.digest = None
        self.counters = {}
        self.states = set()
        self.nontrivial = False
        self.fault_free = True
        self.n_events = 0
        self.events = []
        self.error = None


def execute(scn_cls, seed=None, config=None, steps=None, keep_events=False, scratch=None, n_steps=None):
    """Run one simulated execution.

    Generated mode: seed given, config/steps None.
    Replay mode: config and steps given (seed only recorded).
    """
    ctx = Ctx(keep_events=keep_events)
    ctx.scratch = scratch
    res = RunResult()
    res.seed = seed
    scn = scn_cls(ctx)
    replay = steps is not None
    rng = None if replay else Rng(seed)
    cwd0 = os.getcwd()
    wctx = None
    try:
        try:
            if not replay:
                config = scn.gen_config(rng)
                if isinstance(config.get("steps"), int) and rng.chance(1, 64):
                    # a long history on one object: six times the drawn number of steps
                    config["steps"] *= 6
                    config["marathon"] = True
                # interpreter configuration: warnings of the categories a library issues on its own behalf are errors
                # (python -W error::RuntimeWarning -W error::UserWarning).  The library issues none, so on code that
                # does not warn the run is unaffected; a warning raised in the middle of an update tears it.
                config["warn_error"] = rng.chance(1, 8)
            # round-trip through JSON so generated and replayed runs see identical values
            config = json.loads(canon(config))
            res.config = config
            ctx.event({"seed": seed if not replay else None, "config": config} if not replay else {"config": config})
            if config.get("warn_error"):
                import warnings

                wctx = warnings.catch_warnings()
                wctx.__enter__()
                warnings.simplefilter("error", RuntimeWarning)
                warnings.simplefilter("error", UserWarning)
                # ... and any category when the warning is attributed to a module of the library itself
                warnings.filterwarnings("error", module=r"probables(\..*)?$")
                ctx.fault("warnings_are_errors")
            scn.setup(config)
            if replay:
                for st in steps:
                    st = json.loads(canon(st))
                    res.steps.append(st)
                    out = scn.apply(st)
                    ctx.event({"step": st, "out": out})
                    if out != "skip":
                        scn.neighbour_step(st)
            else:
                limit = n_steps if n_steps is not None else scn.max_steps * (6 if config.get("marathon") else 1)
                for _ in range(limit):
                    st = scn.gen_step(rng)
                    if st is None:
                        break
                    if "alt" not in st:
                        # which public spelling of the call to use: op(key, ...) or op_alt(hashes(key), ...)
                        # (True / "altkw": op_alt; "kw" / "altkw": arguments by their documented names)
                        st["alt"] = rng.weighted([(11, False), (4, True), (3, "kw"), (2, "altkw")])
                    if "nb" not in st:
                        st["nb"] = rng.chance(1, 3)
                    st = json.loads(canon(st))
                    res.steps.append(st)
                    out = scn.apply(st)
                    ctx.event({"step": st, "out": out})
                    if out != "skip":
                        scn.neighbour_step(st)
            scn.finish()
        except Violation as v:
            res.violation = {"property": scn.prop, "kind": v.kind, "detail": v.detail,
                             "signature": v.signature, "step": len(res.steps)}
            ctx.event({"violation": v.kind})
        except HarnessError:
            raise
        except Exception as e:
            # An exception that escapes a scenario.  Scenarios only issue calls that are valid by the documentation
            # (and turn the documented refusals - CuckooFilterFullError, QuotientFilterError - into "indeterminate"
            # themselves), so an exception RAISED INSIDE THE LIBRARY here means the call the property speaks about
            # produced no result: reported as a violation of the property whose scenario issued the call.  An
            # exception raised in harness code stays a harness error.
            where = _raised_in_library(e)
            if where is None:
                raise
            res.violation = {"property": scn.prop, "kind": "unexpected_exception",
                             "detail": f"{type(e).__name__}: {e} raised at {where} during step "
                                       f"{canon(res.steps[-1]) if res.steps else 'setup'}",
                             "signature": {"exception": type(e).__name__}, "step": len(res.steps)}
            ctx.event({"violation": "unexpected_exception"})
    finally:
        try:
            if wctx is not None:
                wctx.__exit__(None, None, None)
            scn.close_neighbour()
            scn.teardown()
        finally:
            os.chdir(cwd0)
    res.digest = ctx.digest()
    res.counters = ctx.counters
    res.states = ctx.states
    res.nontrivial = ctx.nontrivial
    res.fault_free = ctx.fault_free
    res.n_events = ctx.n_events
    res.events = ctx.events
    return res


def _raised_in_library(exc):
    """file:line of the deepest library frame if the exception came out of library code - raised there, or in a
    C function / standard-library function it called - and NOT out of harness code the library called back into
    (a simulator hash strategy, a SimFile).  None otherwise."""
    prefix = os.path.join(os.path.realpath(repo_path()), "probables") + os.sep
    harness = os.path.dirname(os.path.abspath(__file__)) + os.sep
    tb = exc.__traceback__
    depth = 0
    last_lib = None
    last_harness = -1
    n_lib = n_harness = 0
    while tb is not None:
        fn = os.path.realpath(tb.tb_frame.f_code.co_filename)
        if fn.startswith(prefix):
            last_lib = (depth, fn, tb.tb_lineno)
            n_lib += 1
        elif fn.startswith(harness) or "/refpy/" in fn:
            last_harness = depth
            n_harness += 1
        depth += 1
        tb = tb.tb_next
    if isinstance(exc, RecursionError) and last_lib is not None and n_lib >= 100 and n_lib > 4 * n_harness:
        # the stack was used up by library frames; which callee happened to hit the limit says nothing
        last_harness = -1
    if last_lib is None or last_harness > last_lib[0]:
        return None
    return f"{os.path.relpath(last_lib[1], os.path.dirname(prefix.rstrip(os.sep)))}:{last_lib[2]}"


def repo_path():
    return os.environ.get("VERIF_REPO", "/repo")


def import_repo():
    """Make `probables` come from $VERIF_REPO's working tree and assert it."""
    rp = os.path.realpath(repo_path())
    if sys.path[0] != rp:
        sys.path.insert(0, rp)
    import probables  # noqa

    got = os.path.realpath(os.path.dirname(os.path.dirname(probables.__file__)))
    if got != rp:
        raise HarnessError(f"probables imported from {got}, expected {rp}")
    return rp
