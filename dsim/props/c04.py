"""C04 - the quotient filter is an exact set of 32-bit hashes; every call terminates."""
from ..core import Violation
from ..worlds.quotient import QuotientWorld
from . import PropSpec


class C04Quotient(QuotientWorld):
    prop = "C04"
    hang_is_violation = True
    allow_big = True
    try_refusals = True
    refusal_optional = True

    def finish(self):
        if self.cfg.get("big") and self.claim_open:
            self.observe({"op": "final"})  # wide tables: one full scan at the end of the history

    def observe(self, step):
        if not self.claim_open:
            return
        f = self.f
        ctx = self.ctx
        sig = self.full_sig()
        sig["op"] = step["op"]
        probes = sorted(set(self.cfg["uni"]) | self.model)
        if self.cfg.get("big9"):
            # 512 slots in one cluster make every look-up O(table): probe a deterministic sample; get_hashes() below
            # still compares the complete content
            from ..core import mix
            sel = mix(len(self.model), str(step.get("i", 0)), step["op"])
            probes = [h for j, h in enumerate(probes) if (j * 2654435761 + sel) % 13 == 0]
        for h in probes:
            st, v = self.call(lambda: f.check_alt(h), f"check_alt({h:#x})", sig)
            if st == "exc":
                raise Violation("observation_raised", f"check_alt({h:#x}) raised {type(v).__name__}: {v}", sig)
            if bool(v) != (h in self.model):
                kind = "false_negative" if h in self.model else "false_positive"
                raise Violation(kind, f"after {step}: check_alt({h:#x}) = {v}, model says {h in self.model}; "
                                      f"stored={sorted(self.model)} size={f.size}", sig)
        if self.cfg["keyed"]:
            from .. import seams
            for i, h in enumerate(self.cfg["uni"][:6]):
                key = seams.key_of(i)
                st, v = self.call(lambda: f.check(key), f"check(key {i})", sig)
                if st == "exc" or bool(v) != (h in self.model):
                    raise Violation("keyed_check_wrong", f"check(key {i}) -> {v!r}, model {h in self.model}", sig)
        if self.cfg.get("big9") and step["op"] == "bulk" and len(self.model) < f.size:
            return  # still filling the 512-slot table
        if self.cfg.get("big") and (f.quotient > 17 or step["op"] not in ("resize", "final")):
            # wide table: the full scan is made after resizes and at the end of the history only
            if f.elements_added != len(self.model):
                raise Violation("elements_added_wrong", f"after {step}: elements_added={f.elements_added}, "
                                                        f"{len(self.model)} hashes stored", sig)
            ctx.nontrivial = True
            ctx.probe("wide_table_step")
            return
        st, got = self.call(f.get_hashes, "get_hashes()", sig)
        if st == "exc":
            raise Violation("observation_raised", f"get_hashes() raised {type(got).__name__}: {got} with "
                                                  f"{len(self.model)} stored in a table of {f.size}", sig)
        if sorted(got) != sorted(self.model):
            dup = len(got) != len(set(got))
            raise Violation("hash_list_wrong", f"after {step}: get_hashes()={sorted(got)} model={sorted(self.model)} "
                                               f"duplicates={dup}", sig)
        if f.elements_added != len(self.model):
            raise Violation("elements_added_wrong", f"after {step}: elements_added={f.elements_added}, "
                                                    f"{len(self.model)} hashes stored", sig)
        # the caller owns the returned list: emptying it must not reach back into the filter
        got.clear()
        got.append(12345)
        rows = self.layout()
        ctx.state("".join(rows))
        if self.model:
            ctx.nontrivial = True
        if rows and rows[0][4] == "1" and rows[-1] != "0-0-0":
            ctx.probe("wraparound_cluster")
        if step["op"] == "remove" and any(r == "0-1-1" for r in rows):
            ctx.probe("remove_with_shifted_run_present")


SPEC = PropSpec(
    prop="C04",
    scenarios=[(1, C04Quotient)],
    runs={"quick": 4000, "thorough": 120000},
    rule=("one run = quotient 3..6, auto_expand on/off, max_load_factor, a universe of <=40 structured 32-bit hashes "
          "(quotients biased to the table end, remainders from a pool of <=7 incl. values whose high bits become "
          "quotient bits after a resize) and <=60 add/remove/resize/merge/toggle steps through add_alt and add(key); "
          "after every step every universe hash is looked up, get_hashes() and elements_added are compared with a "
          "Python set; every public call runs under a budget of 400k library line events (overrun = kind 'hang'). "
          "non-trivial = run stored at least one hash; distinct = distinct event-log digests"),
    state_measure="distinct (occupied,continuation,shifted) bit layouts after a step",
    assumptions=["CPython 3.12 sys.monitoring LINE events as the step counter", "reference model: Python set of ints",
                 "a mutating call that raises ends the claim for that run (statement: sequences that did not raise)"],
    real_components=["probables.quotientfilter.QuotientFilter", "probables.utilities.Bitarray"],
    stubbed_components=["hash_function -> table lookup into the run's hash universe"],
)
