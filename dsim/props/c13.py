"""C13 - intersection, Jaccard index and operand compatibility rules."""
import copy
import gc
import struct

from ..core import HarnessError, Scenario, Violation
from .. import seams
from ..worlds import common, structs
from . import PropSpec

FOREIGN = ("none", "int", "str", "sketch", "quotient", "expanding", "bytes")


class C13Pairs(Scenario):
    prop = "C13"
    max_steps = 30

    def gen_config(self, rng):
        kind = rng.choice(("bloom", "bloom", "counting", "cms"))
        if kind == "cms":
            cfg = structs.SketchSubject.gen_cfg(rng)
        else:
            cfg = structs.BloomSubject.gen_cfg(rng, small=True)
        rel = rng.weighted([(5, "compatible"), (2, "diff_est"), (2, "diff_rate"), (2, "diff_hash"), (1, "identical"),
                            (2, "near"), (2, "same_bits"), (2, "same_geom")])
        if kind in ("bloom", "counting") and rng.chance(1, 40):
            cfg["est"], cfg["rate"] = rng.choice(((5000, 0.01), (4000, 0.02), (7000, 0.05)))  # more than 32768 bits
            cfg["large"] = True
        cfg.update({"kind": kind, "rel": rel, "a_disk": kind == "bloom" and rng.chance(1, 3),
                    "b_disk": kind == "bloom" and rng.chance(1, 3), "steps": rng.between(2, self.max_steps),
                    "universe": rng.choice((4, 8, 16)), "hseed2": rng.below(1 << 16),
                    "hash2": rng.choice(("md5", "sha256", "sim", "dec_bytes", "agree_first", "agree_first")),
                    # operand b gets a function object of its own for the shared strategy; a pair of filters whose
                    # strategy object computes what the SECOND strategy computes lives and dies before the run's own
                    # strategy object is created (Env.recycle)
                    "own_closures": rng.chance(1, 3), "recycle": rng.chance(1, 3)})
        return cfg

    def gen_step(self, rng):
        cfg = self.cfg
        if self.n_gen >= cfg["steps"]:
            return None
        self.n_gen += 1
        r = rng.below(100)
        if r < 60:
            st = {"op": "add", "to": rng.choice(("a", "b", "ab")), "k": rng.below(cfg["universe"]),
                  "n": rng.weighted([(5, 1), (2, 3)])}
            if cfg["rel"] == "identical":
                st["to"] = "ab"
            return st
        if r < 84:
            return {"op": "ops", "order": rng.choice(("ab", "ba")), "poke": rng.below(cfg["universe"])}
        if r < 88:
            return {"op": "derive", "side": rng.choice(("a", "b")), "which": rng.choice(("intersection", "union", "clear"))}
        if r < 92 and cfg["kind"] != "cms":
            # same element count, other content: cleared and refilled with as many OTHER keys (also on-disk operands)
            return {"op": "refill", "side": rng.choice(("a", "b")), "shift": rng.between(1, 5)}
        return {"op": "foreign", "what": rng.choice(FOREIGN), "recv": rng.choice(("a", "b"))}

    # ------------------------------------------------------------------ construction
    def second_params(self):
        """Parameters of operand b according to the drawn relation; returns (params, compatible?)."""
        cfg = self.cfg
        rel = cfg["rel"]
        if cfg["kind"] == "cms":
            sz = dict(self.o_sizing)
            hf = self.env.fresh_hf() if cfg.get("own_closures") else self.env.hf
            if rel == "diff_est":
                sz["width"] += 1
            elif rel == "diff_rate":
                sz["depth"] += 1
            elif rel == "same_bits" and sz["width"] != sz["depth"]:
                # same number of cells, other shape
                sz["width"], sz["depth"] = sz["depth"], sz["width"]
                self.ctx.probe("transposed_sketch_pair")
                return (sz, hf), False
            elif rel == "diff_hash":
                hf = self.hf2
            return (sz, hf), rel in ("compatible", "identical", "near", "same_bits", "same_geom")  # Bloom-only relations: compatible
        est, rate, hf = cfg["est"], cfg["rate"], self.env.hf
        if cfg.get("own_closures") and rel != "diff_hash":
            hf = self.env.fresh_hf()
            if self.env.closures():
                self.ctx.fault("per_object_hash_closure")
        if rel == "diff_est":
            est = est + 1 + est // 2
        elif rel == "diff_rate":
            rate = rate / 3.0
        elif rel == "diff_hash":
            hf = self.hf2
        elif rel == "same_geom":
            # different (est_elements, rate) that give exactly the SAME number of bits and hashes: compatible
            m1, k1 = common.geometry(cfg["est"], cfg["rate"])
            found = None
            for e2 in list(range(cfg["est"] + 1, cfg["est"] + 6)) + list(range(max(1, cfg["est"] - 5), cfg["est"])):
                for i in range(1, 400):
                    r2 = 0.00125 * i
                    if common.geometry(e2, r2) == (m1, k1):
                        found = (e2, r2)
                        break
                if found:
                    break
            if found:
                est, rate = found
                self.ctx.probe("same_geometry_other_parameters")
        elif rel == "same_bits":
            # another sizing with exactly the same number of bits / cells but a different number of hashes
            m1, k1 = common.geometry(cfg["est"], cfg["rate"])
            found = None
            for e2 in range(1, 4 * cfg["est"] + 8):
                if e2 == cfg["est"]:
                    continue
                for i in range(1, 200):
                    r2 = 0.0025 * i
                    g = common.geometry(e2, r2)
                    if g and g[0] == m1 and g[1] != k1:
                        found = (e2, r2)
                        break
                if found:
                    break
            if found:
                est, rate = found
                self.ctx.probe("same_bits_other_hash_count")
        elif rel == "near":
            # a sizing whose bit count differs but rounds up to the same number of bytes (and the same k)
            m1, k1 = common.geometry(cfg["est"], cfg["rate"])
            for i in range(1, 60):
                r2 = rate * (1.0 + 0.004 * i)
                g = common.geometry(est, r2) if r2 < 1 else None
                if g and g[0] != m1 and g[1] == k1 and (g[0] + 7) // 8 == (m1 + 7) // 8:
                    rate = r2
                    self.ctx.probe("near_sizing_pair")
                    break
        g1 = common.geometry(cfg["est"], cfg["rate"])
        g2 = common.geometry(est, rate)
        same = g1 == g2 and rel != "diff_hash"
        return (est, rate, hf), same

    def make(self, params, disk):
        import probables

        kind = self.cfg["kind"]
        if kind == "cms":
            sz, hf = params
            return probables.CountMinSketch(hash_function=hf, **sz)
        est, rate, hf = params
        if kind == "counting":
            return probables.CountingBloomFilter(est, rate, hash_function=hf)
        if disk:
            path = self.env.scr.abspath("a", self.env.fresh_name("blm"))
            o = probables.BloomFilterOnDisk(path, est, rate, hash_function=hf)
            self.disk.append((o, path))
            return o
        return probables.BloomFilter(est, rate, hash_function=hf)

    def setup(self, cfg):
        self.cfg = cfg
        self.n_gen = 0
        self.env = structs.Env(self.ctx, cfg, need_fs=cfg["kind"] == "bloom")
        seams.SURROGATE_OK = False  # the second strategy of a pair may be a digest-based one
        self.disk = []
        from probables.hashes import default_fnv_1a

        if cfg["kind"] != "cms" and cfg["hash2"] in ("sim", "dec_bytes"):
            def prior_life(h):
                d1 = self.make((cfg["est"], cfg["rate"], h), False)
                d2 = self.make((cfg["est"], cfg["rate"], h), False)
                d1.add("x")
                d1.union(d2)
                d1.intersection(d2)
                d1.jaccard_index(d2)

            self.env.recycle(prior_life, makers=[lambda: seams.make_list_hash(cfg["hash2"], cfg["hseed2"], 0)])
            self.disk = []
        base_hf = self.env.hf or default_fnv_1a
        if cfg["hash2"] == "agree_first":
            # same first hash as the first strategy, different ones afterwards
            def hf2(key, depth=1):
                hs = base_hf(key, depth)
                return hs[:1] + [(x ^ 0x5BD1E995A5A5A5A5) & 0xFFFFFFFFFFFFFFFF for x in hs[1:]]

            self.hf2 = hf2
            self.ctx.probe("strategies_agree_on_first_hash")
        else:
            self.hf2 = seams.make_list_hash(cfg["hash2"], cfg["hseed2"], 0)
        if cfg["rel"] == "diff_hash":
            # the rule: operands are incompatible iff their strategies differ on the probe key at the depth in use
            if cfg["kind"] == "cms":
                sz = cfg["sizing"] if "width" in cfg["sizing"] else {"width": 5, "depth": 3}
                depth = sz["depth"]
            else:
                depth = common.geometry(cfg["est"], cfg["rate"])[1]
            if base_hf("test", depth) == self.hf2("test", depth):
                cfg["rel"] = "compatible"
        if cfg["kind"] == "cms":
            sz = dict(cfg["sizing"])
            if "width" not in sz:
                sz = {"width": 5, "depth": 3}
            self.o_sizing = sz
            self.a = self.make((sz, self.env.hf), False)
        else:
            self.a = self.make((cfg["est"], cfg["rate"], self.env.hf), cfg["a_disk"])
        params, self.compatible = self.second_params()
        self.b = self.make(params, cfg["b_disk"])
        self.out = {"a": {}, "b": {}}

    def teardown(self):
        for o, _ in getattr(self, "disk", []):
            try:
                o.close()
            except Exception:
                pass
        gc.collect()
        if getattr(self, "env", None) is not None:
            self.env.cleanup()

    # ------------------------------------------------------------------ observation helpers
    def snapshot(self, o):
        """Everything observable of an operand: exported bytes, counter and (on-disk) the backing file."""
        # cells rather than bytes(): a derived filter whose bits are all set carries -1 and cannot be packed
        snap = [self.cells(o) if self.cfg["kind"] != "cms" else bytes(o), o.elements_added]
        for d, path in self.disk:
            if d is o:
                snap.append(common.read_fresh(path))
        return snap

    def cells(self, o):
        kind = self.cfg["kind"]
        if kind == "counting":
            return list(o.bloom)
        if kind == "cms":
            b = bytes(o)[:-16]
            return list(struct.unpack(f"{len(b) // 4}i", b))
        b = bytes(o)[:-20] if o.is_on_disk else bytes(o.bloom)
        return list(b)

    def apply(self, step):
        ctx = self.ctx
        cfg = self.cfg
        kind = cfg["kind"]
        op = step["op"]
        ctx.count("op." + op)
        if op == "add":
            for side in step["to"]:
                tgt = self.a if side == "a" else self.b
                key = seams.key_of(step["k"])
                if kind == "bloom":
                    tgt.add(key)
                else:
                    tgt.add(key, step["n"])
                self.out[side][step["k"]] = 1
            return {"r": "ok"}
        if op == "refill":
            tgt = self.a if step["side"] == "a" else self.b
            old = sorted(self.out[step["side"]])
            if not old or tgt.elements_added != len(old):
                return "skip"
            tgt.clear()
            self.out[step["side"]] = {}
            for k in old:
                k2 = (k + step["shift"]) % (cfg["universe"] + 6)
                while k2 in self.out[step["side"]]:
                    k2 += 1
                tgt.add(seams.key_of(k2)) if kind == "bloom" else tgt.add(seams.key_of(k2), 1)
                self.out[step["side"]][k2] = 1
            ctx.fault("refilled_same_count")
            return {"r": "ok", "count": tgt.elements_added}
        if op == "ops":
            return self.pair_ops(step["order"], step.get("poke"), step.get("alt") in ("kw", "altkw"))
        if op == "derive":
            return self.derive(step)
        if op == "foreign":
            return self.foreign(step)
        raise HarnessError(op)

    def finish(self):
        self.pair_ops("ab", 0)

    def derive(self, step):
        """Replace an in-memory Bloom operand by a derived filter (result of a set operation / cleared): such
        filters carry an ESTIMATED element count, possibly 0 with bits set - a reachable state."""
        kind = self.cfg["kind"]
        if kind == "cms" or not self.compatible:
            return "skip"
        x, y = (self.a, self.b) if step["side"] == "a" else (self.b, self.a)
        if getattr(x, "is_on_disk", False):
            return "skip"
        if step["which"] == "clear":
            x.clear()
            self.out[step["side"]] = {}
            return {"r": "ok"}
        res = getattr(x, step["which"])(y)
        if res is None:
            return "skip"
        if step["side"] == "a":
            self.a = res
        else:
            self.b = res
        self.ctx.fault("derived_operand")
        return {"r": "ok", "count": res.elements_added}

    def foreign_obj(self, what):
        import probables

        if what == "none":
            return None
        if what == "int":
            return 7
        if what == "str":
            return "filter"
        if what == "bytes":
            return b"\x00" * 40
        if what == "sketch":
            return probables.CountMinSketch(width=3, depth=2) if self.cfg["kind"] != "cms" else probables.BloomFilter(5, 0.1)
        if what == "quotient":
            return probables.QuotientFilter(quotient=3)
        if what == "expanding":
            return probables.ExpandingBloomFilter(est_elements=5, false_positive_rate=0.1)
        raise HarnessError(what)

    def foreign(self, step):
        from probables.exceptions import CountMinSketchError

        recv = self.a if step["recv"] == "a" else self.b
        other = self.foreign_obj(step["what"])
        sig = {"kind": self.cfg["kind"], "op": "foreign", "what": step["what"]}
        before = self.snapshot(recv)
        names = ("join",) if self.cfg["kind"] == "cms" else ("union", "intersection", "jaccard_index")
        for nm in names:
            try:
                r = getattr(recv, nm)(other)
            except TypeError:
                pass
            except Exception as e:
                raise Violation("foreign_wrong_exception", f"{type(recv).__name__}.{nm}({step['what']}) raised "
                                                           f"{type(e).__name__}: {e} instead of TypeError", sig)
            else:
                raise Violation("foreign_accepted", f"{type(recv).__name__}.{nm}({step['what']}) returned {r!r} instead of "
                                                    f"raising TypeError", sig)
        if self.snapshot(recv) != before:
            raise Violation("operand_modified", f"a refused operation with a foreign operand modified the receiver", sig)
        self.ctx.fault("foreign_operand")
        return {"r": "ok"}

    def pair_ops(self, order, poke=None, kw=False):
        from probables.exceptions import CountMinSketchError

        ctx = self.ctx
        kind = self.cfg["kind"]
        x, y = (self.a, self.b) if order == "ab" else (self.b, self.a)
        sig = {"kind": kind, "rel": self.cfg["rel"], "class": type(x).__name__, "arg_class": type(y).__name__,
               "compatible": self.compatible}
        sx, sy = self.snapshot(x), self.snapshot(y)
        if kind == "cms":
            recv = copy.deepcopy(x)
            try:
                structs.set_op(recv, "join", y, kw)
                joined = True
            except CountMinSketchError:
                joined = False
            if joined != self.compatible:
                raise Violation("join_guard_wrong", f"join of {'compatible' if self.compatible else 'mismatched'} sketches "
                                                    f"({self.cfg['rel']}) {'succeeded' if joined else 'was refused'}", sig)
            if not joined and (bytes(recv) != sx[0]):  # sketches always export
                raise Violation("operand_modified", "a refused join modified the receiver", sig)
            if self.snapshot(y) != sy or self.snapshot(x) != sx:
                raise Violation("operand_modified", "join modified an operand other than its receiver", sig)
            if joined and poke is not None:
                # the receiver goes on living: its later updates must not show through in the other operand
                recv.add(seams.key_of(poke), 3)
                recv.remove(seams.key_of(poke + 1), 1)
                if self.snapshot(y) != sy:
                    raise Violation("operand_modified", "an update of the join receiver after the join changed the other "
                                                        "operand (shared state)", sig)
                recv.clear()
                if self.snapshot(y) != sy:
                    raise Violation("operand_modified", "clear() of the join receiver after the join changed the other "
                                                        "operand (shared state)", sig)
            ctx.fault("incompatible_pair" if not self.compatible else "compatible_pair")
            ctx.nontrivial = True
            return {"r": "ok", "joined": joined}
        inter = structs.set_op(x, "intersection", y, kw)
        uni = structs.set_op(x, "union", y, kw)
        jac = structs.set_op(x, "jaccard_index", y, kw)
        jac_r = y.jaccard_index(x)
        if kw:
            ctx.fault("operand_by_keyword")
        if self.snapshot(x) != sx or self.snapshot(y) != sy:
            raise Violation("operand_modified", "union / intersection / jaccard_index modified an operand", sig)
        if not self.compatible:
            ctx.fault("incompatible_pair")
            ctx.nontrivial = True
            for nm, v in (("intersection", inter), ("union", uni), ("jaccard_index", jac), ("jaccard_index (reversed)", jac_r)):
                if v is not None:
                    raise Violation("incompatible_accepted", f"{nm} of operands with {self.cfg['rel']} returned {v!r}, "
                                                             f"expected None", sig)
            return {"r": "none"}
        ctx.fault("compatible_pair")
        for nm, v in (("intersection", inter), ("union", uni), ("jaccard_index", jac)):
            if v is None:
                raise Violation("compatible_refused", f"{nm} of compatible operands returned None", sig)
        cx, cy, ci = self.cells(x), self.cells(y), self.cells(inter)
        if kind == "bloom":
            want = [p & q for p, q in zip(cx, cy)]
            if ci != want:
                raise Violation("intersection_wrong", "intersection array is not the byte-wise AND of the operands", sig)
            n_and = sum(bin(p & q).count("1") for p, q in zip(cx, cy))
            n_or = sum(bin(p | q).count("1") for p, q in zip(cx, cy))
        else:
            for i, (p, q) in enumerate(zip(cx, cy)):
                if (ci[i] != 0) != (p != 0 and q != 0):
                    raise Violation("intersection_wrong", f"cell {i}: operands {p},{q}, intersection {ci[i]}", sig)
            n_and = sum(1 for p, q in zip(cx, cy) if p and q)
            n_or = sum(1 for p, q in zip(cx, cy) if p or q)
        for k in range(self.cfg["universe"] + 3):
            key = seams.key_of(k)
            if x.check(key) and y.check(key) and not inter.check(key):
                raise Violation("intersection_lost_key", f"key {k} is reported by both operands but not by the intersection",
                                sig)
        want_j = 1.0 if n_or == 0 else n_and / n_or
        if jac != want_j or jac_r != want_j:
            raise Violation("jaccard_wrong", f"jaccard_index={jac!r} reversed={jac_r!r}, popcount ratio {n_and}/{n_or}", sig)
        if poke is not None:
            # results are new filters: updating them must not show through in the operands
            for res in (inter, uni):
                if kind == "bloom":
                    res.add(seams.key_of(poke))
                else:
                    res.add(seams.key_of(poke), 2)
            if self.snapshot(x) != sx or self.snapshot(y) != sy:
                raise Violation("operand_modified", "updating the result of union/intersection changed an operand", sig)
        if not 0.0 <= jac <= 1.0:
            raise Violation("jaccard_wrong", f"jaccard_index={jac!r} outside [0,1]", sig)
        if cx == cy and jac != 1.0:
            raise Violation("jaccard_wrong", f"identical operands: jaccard_index={jac!r}", sig)
        if n_and and n_and != n_or:
            ctx.nontrivial = True
        ctx.state(kind, n_and > 0, n_and == n_or, type(x).__name__, type(y).__name__)
        return {"r": "ok", "j": [n_and, n_or]}

    def simplify_config(self, cfg):
        for f in ("a_disk", "b_disk"):
            if cfg.get(f):
                c = dict(cfg)
                c[f] = False
                yield c


SPEC = PropSpec(
    prop="C13",
    scenarios=[(1, C13Pairs)],
    runs={"quick": 16000, "thorough": 400000},
    rule=("one run = a pair of plain / on-disk Bloom filters, counting Bloom filters or sketches in a drawn relation "
          "(compatible, identical, different est_elements, different rate, different hash strategy - only if the two "
          "strategies differ on the probe key 'test') fed seeded additions; at seeded points and at the end "
          "intersection / union / Jaccard (both orders) or join (on a copy) are evaluated, and foreign operands (None, "
          "int, str, bytes, a sketch, a quotient filter, an expanding filter) are offered.  Oracle: AND array, popcount "
          "ratio computed by the harness, None / CountMinSketchError for incompatible, TypeError for foreign, exported "
          "bytes + counter (+ backing file) of every non-receiver unchanged.  non-trivial = an incompatible pair, a join, "
          "or a partially overlapping compatible pair; distinct = event-log digests"),
    state_measure="distinct (kind, overlap class, operand classes)",
    assumptions=["CPython 3.12", "pairs count as incompatible when (number_bits, number_hashes) differ or the hash strategies "
                 "differ on the probe key; a different est/rate that yields the same geometry counts as compatible",
                 "values of counting-intersection cells are not stated and not checked"],
    real_components=["BloomFilter, BloomFilterOnDisk (real file), CountingBloomFilter, CountMinSketch; their set operations"],
    stubbed_components=["hash_function (two simulator strategies per run)"],
)
