"""C17 - heavy-hitter and threshold tables are consistent with the returned estimates (thin)."""
import gc

from ..core import Scenario, Violation
from ..worlds import structs
from . import PropSpec


class C17Tables(Scenario):
    prop = "C17"
    max_steps = 60

    def gen_config(self, rng):
        cfg = structs.SketchSubject.gen_cfg(rng)
        cfg["sizing"] = {"width": rng.choice((1, 2, 3, 3, 50)), "depth": rng.between(1, 3)}
        cfg.update({"subject": rng.choice(("HeavyHitters", "StreamThreshold")), "steps": rng.between(4, self.max_steps),
                    "universe": rng.between(7, 12), "param": rng.between(1, 10),
                    # an object of the same class lives (long enough to evict / cross the threshold) and dies before
                    # the subject is built; CPython hands its address to the subject
                    "prior_obj": rng.chance(1, 4), "neighbour": rng.chance(1, 6),
                    # the table is looked at after every step, or only after some of them (a look is a query too)
                    "sparse_looks": rng.chance(1, 3)})
        if rng.chance(1, 60):
            # tables of several hundred entries, a sketch wide enough that estimates are mostly exact
            cfg.update({"sizing": {"width": rng.choice((1500, 4000)), "depth": rng.between(1, 2)},
                        "param": rng.choice((512, 520, 600)), "universe": 700, "big": True, "steps": rng.between(4, 9)})
        return cfg

    def gen_step(self, rng):
        if self.n_gen >= self.cfg["steps"]:
            return None
        self.n_gen += 1
        if self.cfg.get("big"):
            if self.n_gen == 1 or rng.chance(1, 5):
                return {"op": "bulk", "k0": rng.choice((0, 0, 50)), "cnt": rng.choice((520, 640, 700)),
                        "base": rng.choice((1, 100)), "gap": rng.choice((5, 7))}
            if rng.chance(1, 2):
                return {"op": "low_pair", "k1": rng.between(640, 699), "k2": rng.between(640, 699)}
        if rng.chance(1, 12):
            return {"op": "add", "k": rng.below(self.cfg["universe"]), "n": 0}  # adding nothing is still an add of that key
        if rng.chance(1, 15):
            return {"op": "describe"}  # str() of the structure between two updates
        st = self.sub.gen_op(rng)
        if self.cfg.get("sparse_looks"):
            st["look"] = rng.chance(1, 3)
        return st

    def setup(self, cfg):
        self.cfg = cfg
        self.n_gen = 0
        self.env = structs.Env(self.ctx, cfg, need_fs=False)
        dead = None
        if cfg.get("prior_obj"):
            d = structs.ALL_SUBJECTS[cfg["subject"]](self.env, dict(cfg, _decoy=True))
            d.build()
            for i in range(min(cfg["param"], 12) + 4):
                d.apply_op({"op": "add", "k": i % cfg["universe"], "n": 2 + 3 * i})
            dead = id(d.obj)
            del d
            gc.collect()
            self.ctx.fault("prior_life")
        self.sub = structs.ALL_SUBJECTS[cfg["subject"]](self.env, cfg)
        self.o = self.sub.build()
        if dead is not None and id(self.o) == dead:
            self.ctx.fault("object_id_reused")
        self.last = {}  # key index -> estimate returned by its most recent add/remove

    def apply(self, step):
        ctx = self.ctx
        sub = self.sub
        o = self.o
        ctx.count("op." + step["op"])
        if step["op"] == "bulk":
            # many distinct keys with distinct amounts, one add each
            r = None
            for j in range(step["cnt"]):
                k = (step["k0"] + j) % self.cfg["universe"]
                r = sub.apply_op({"op": "add", "k": k, "n": step["base"] + step["gap"] * ((j * 37) % step["cnt"])})
                self.last[k] = r
            ctx.fault("bulk_adds")
        elif step["op"] == "low_pair":
            # two newcomers aimed between the two smallest tracked estimates (amounts derived from the current table)
            if sub.name != "HeavyHitters" or len(o.heavy_hitters) < 2:
                return "skip"
            lows = sorted(o.heavy_hitters.values())[:2]
            r = None
            for j, k in enumerate((step["k1"], step["k2"])):
                have = self.last.get(k, 0)
                n = max(1, lows[0] + 1 + j - have)
                r = sub.apply_op({"op": "add", "k": k, "n": n})
                self.last[k] = r
            ctx.fault("newcomers_between_lowest")
        elif step["op"] == "describe":
            r = len(str(o))
            r = None
            ctx.fault("described")
        else:
            r = sub.apply_op(step)
            if r == "skip":
                return "skip"
            self.last[step["k"]] = r
            if self.cfg.get("sparse_looks") and not step.get("look"):
                ctx.fault("step_without_look")
                return {"r": r, "tracked": None}
        sig = {"class": sub.name, "op": step["op"]}
        want_keys = {sub.key(k): v for k, v in self.last.items()}
        if sub.name == "HeavyHitters":
            table = dict(o.heavy_hitters)
            n = min(self.cfg["param"], len(self.last))
            if len(table) != n:
                raise Violation("hh_table_size", f"{len(table)} keys tracked, expected min({self.cfg['param']}, "
                                                 f"{len(self.last)} distinct) after {step}", sig)
            for key, v in table.items():
                if key not in want_keys:
                    raise Violation("hh_unknown_key", f"tracked key {key!r} was never added", sig)
                if want_keys[key] != v:
                    raise Violation("hh_stale_value", f"tracked key {key!r} has {v}, its most recent add returned "
                                                      f"{want_keys[key]} after {step}", sig)
            if table:
                smallest = min(table.values())
                for key, v in want_keys.items():
                    if key not in table and v > smallest:
                        raise Violation("hh_missed_hitter", f"untracked key {key!r} last returned {v} > smallest tracked "
                                                            f"{smallest} after {step}; table={table}", sig)
            if len(self.last) > self.cfg["param"]:
                ctx.nontrivial = True
                ctx.probe("universe_larger_than_table")
        else:
            table = dict(o.meets_threshold)
            thr = self.cfg["param"]
            want = {key: v for key, v in want_keys.items() if v >= thr}
            if table != want:
                miss = sorted(repr(k) for k in want if k not in table)
                extra = sorted(repr(k) for k in table if k not in want)
                stale = sorted(repr(k) for k in table if k in want and table[k] != want[k])
                raise Violation("st_table_wrong", f"threshold {thr}: missing={miss} extra={extra} stale={stale} after "
                                                  f"{step}; table={table} last returned={want_keys}", sig)
            if any(v < thr for v in want_keys.values()) and want:
                ctx.nontrivial = True
        ctx.state(sub.name, len(table), len(self.last))
        return {"r": r, "tracked": len(table)}

    def finish(self):
        if self.cfg.get("sparse_looks") and self.last:
            self.apply({"op": "describe"})  # one last look at the table

    def simplify_step(self, step):
        if step.get("n", 1) > 1:
            s = dict(step)
            s["n"] = 1
            yield s


SPEC = PropSpec(
    prop="C17",
    scenarios=[(1, C17Tables)],
    runs={"quick": 60000, "thorough": 1500000},
    rule=("THIN (hash seam only).  one run = HeavyHitters (add only) or StreamThreshold (add + legitimate remove) of "
          "width {1,2,3,50} x depth 1..3, hitters/threshold 1..10, a universe of 7..12 keys, <=60 steps (1 run in 60: 512..600 "
          "table entries, 700 keys, bulk adds and newcomers aimed between the two smallest tracked estimates; 1 in 4: an "
          "object of the same class lived and died at the subject's address before); the harness "
          "remembers what each add/remove RETURNED and after every step compares the tracking table with it (size, "
          "values, no missed hitter / exactly the keys at or above the threshold).  non-trivial = more distinct keys than "
          "table slots (HH) / both tracked and untracked keys (ST); distinct = event-log digests"),
    state_measure="distinct (class, tracked keys, distinct keys seen)",
    assumptions=["CPython 3.12", "oracle state: last returned estimate per key"],
    real_components=["HeavyHitters, StreamThreshold and the CountMinSketch underneath"],
    stubbed_components=["hash_function (simulator strategies, incl. range-squeezed)"],
)
