"""C06 - exported bytes follow the documented C-compatible layout exactly.

Two independent parties over the storage channel: a reader written in C from the
description (refc/reader.c, compiled by setup_cmd / prepare) and a writer written
from the description (refpy/writer.py).  No fault is injected; thin on faults,
genuinely two-party.
"""
import os
import subprocess
import sys

from ..core import HarnessError, Scenario, Violation
from .. import seams
from . import PropSpec

VERIF = os.path.dirname(os.path.dirname(os.path.dirname(os.path.abspath(__file__))))
READER = os.path.join(VERIF, "build", "reader")
sys.path.insert(0, os.path.join(VERIF, "refpy"))

KINDS = ("bloom", "cbloom", "cms-min", "cms-mean", "cms-meanmin", "expanding", "rotating", "cuckoo", "ccuckoo", "ondisk")
RATES = (0.5, 0.3, 0.2, 0.1, 0.05, 0.01, 0.001, 1e-05, 1e-09, 1e-12, 1e-15)


def ensure_reader():
    src = os.path.join(VERIF, "refc", "reader.c")
    if not os.path.exists(READER) or os.path.getmtime(READER) < os.path.getmtime(src):
        os.makedirs(os.path.dirname(READER), exist_ok=True)
        tmp = READER + f".{os.getpid()}"
        subprocess.run(["gcc", "-O2", "-o", tmp, src, "-lm"], check=True)
        os.replace(tmp, READER)


def akey(k):
    """ASCII str keys or bytes keys - including arbitrary binary bytes (the documented rule hashes bytes as they are)."""
    if k % 6 == 3:
        return bytes([0xFE, k & 0xFF, 0x80, 0xC3, 0x28, (k * 37) & 0xFF])  # not valid UTF-8
    return b"b%d" % k if k % 3 == 0 else f"key-{k}"


def kb(key):
    return key.encode("ascii") if isinstance(key, str) else key


class C06Layout(Scenario):
    prop = "C06"
    max_steps = 40

    def gen_config(self, rng):
        kind = rng.choice(KINDS)
        cfg = {"kind": kind, "steps": rng.between(2, self.max_steps), "universe": rng.choice((4, 10, 25, 60))}
        if kind.startswith("cms"):
            cfg.update({"width": rng.choice((2, 3, 5, 8, 50, 200)), "depth": rng.between(1, 6) if rng.chance(5, 6) else rng.choice((17, 33, 40)),
                        "free_removes": rng.chance(1, 2)})
        elif kind in ("cuckoo", "ccuckoo"):
            cfg.update({"capacity": rng.choice((2, 3, 5, 8, 20)), "bucket_size": rng.choice((1, 2, 3, 4, 4, 9, 12)),
                        "max_swaps": rng.choice((2, 5, 20, 100)), "finger_size": rng.choice((1, 2, 4)),
                        "sseed": rng.below(1 << 30)})
        else:
            import writer

            for _ in range(40):
                est = rng.choice((1, 2, 3, 5, 8, 13, 40, 200)) if kind not in ("expanding", "rotating") else rng.between(1, 6)
                rate = rng.choice(RATES)
                m, k = writer.geometry(est, rate)
                if k >= 1 and m <= 6000:
                    break
            cfg.update({"est": est, "rate": rate, "mqs": rng.between(1, 4)})
        return cfg

    def gen_step(self, rng):
        cfg = self.cfg
        if self.n_gen >= cfg["steps"]:
            return None
        self.n_gen += 1
        kind = cfg["kind"]
        k = rng.below(cfg["universe"])
        r = rng.below(100)
        if r < 12:
            return {"op": "compare"}
        if kind in ("bloom", "ondisk"):
            return {"op": "add", "k": k}
        if kind.startswith("cms") and cfg.get("free_removes") and r < 30:
            # int32 cells are signed: removing more than was added is part of the format's state space
            return {"op": "remove", "k": k, "n": rng.weighted([(5, 1), (2, 3), (1, 50)]), "free": True}
        if kind == "cbloom" or kind.startswith("cms"):
            live = sorted(x for x, v in self.out.items() if v > 0)
            if live and r < 35:
                x = rng.choice(live)
                return {"op": "remove", "k": x, "n": rng.between(1, min(self.out[x], 3))}
            n = rng.weighted([(6, 1), (2, 2), (1, 40)])
            if rng.chance(1, 10):  # drive cells to their storage limit: the layout rule includes the pinning
                n = rng.choice((2**32 - 1, 2**31, 2**32 + 7) if kind == "cbloom" else (2**31 - 1, 2**31 + 9, 2**30, 2**54 + 1,
                                                                                      2**60 + 12345, 2**62))
            return {"op": "add", "k": k, "n": n}
        if kind in ("expanding", "rotating"):
            if r < 20:
                return {"op": "push"}
            if r < 26 and kind == "rotating":
                return {"op": "pop"}
            return {"op": "add", "k": k, "force": rng.chance(1, 8)}
        if kind in ("cuckoo", "ccuckoo"):
            live = sorted(self.out)
            if live and r < 35:
                return {"op": "remove", "k": rng.choice(live)}
            return {"op": "add", "k": k}
        raise HarnessError(kind)

    # ------------------------------------------------------------------ world
    def setup(self, cfg):
        import probables
        import writer

        self.W = writer
        self.cfg = cfg
        self.n_gen = 0
        self.out = {}
        kind = cfg["kind"]
        self.scr = seams.Scratch(self.ctx.scratch)
        self.n_files = 0
        if kind == "bloom":
            self.o = probables.BloomFilter(cfg["est"], cfg["rate"])
            self.ref = writer.RefBloom(cfg["est"], cfg["rate"])
        elif kind == "ondisk":
            self.o = probables.BloomFilterOnDisk(self.scr.abspath("a", "live.blm"), cfg["est"], cfg["rate"])
            self.ref = writer.RefBloom(cfg["est"], cfg["rate"])
        elif kind == "cbloom":
            self.o = probables.CountingBloomFilter(cfg["est"], cfg["rate"])
            self.ref = writer.RefCountingBloom(cfg["est"], cfg["rate"])
        elif kind.startswith("cms"):
            C = {"cms-min": probables.CountMinSketch, "cms-mean": probables.CountMeanSketch,
                 "cms-meanmin": probables.CountMeanMinSketch}[kind]
            self.o = C(width=cfg["width"], depth=cfg["depth"])
            self.ref = writer.RefSketch(cfg["width"], cfg["depth"])
        elif kind == "expanding":
            self.o = probables.ExpandingBloomFilter(est_elements=cfg["est"], false_positive_rate=cfg["rate"])
            self.ref = writer.RefExpanding(cfg["est"], cfg["rate"])
        elif kind == "rotating":
            self.o = probables.RotatingBloomFilter(est_elements=cfg["est"], false_positive_rate=cfg["rate"],
                                                   max_queue_size=cfg["mqs"])
            self.ref = writer.RefExpanding(cfg["est"], cfg["rate"], max_queue=cfg["mqs"])
        else:
            C = probables.CuckooFilter if kind == "cuckoo" else probables.CountingCuckooFilter
            self.o = C(capacity=cfg["capacity"], bucket_size=cfg["bucket_size"], max_swaps=cfg["max_swaps"],
                       finger_size=cfg["finger_size"], auto_expand=True)
            self.ref = None
            self.sr = seams.install_simrandom()
            self.fps = {}  # fingerprint -> count

    def teardown(self):
        if getattr(self, "o", None) is not None and hasattr(self.o, "close"):
            try:
                self.o.close()
            except Exception:
                pass
        if getattr(self, "scr", None) is not None:
            self.scr.cleanup()

    def apply(self, step):
        ctx = self.ctx
        kind = self.cfg["kind"]
        op = step["op"]
        ctx.count("op." + op)
        o, ref = self.o, self.ref
        if op == "compare":
            return self.compare()
        key = akey(step["k"]) if "k" in step else None
        if kind in ("cuckoo", "ccuckoo"):
            from probables.exceptions import CuckooFilterFullError

            fp = self.W.cuckoo_fingerprint(key, self.cfg["finger_size"])
            self.sr.arm(seams.Sched({"strat": "uniform", "seed": self.cfg["sseed"] + self.n_files + len(self.fps)}))
            try:
                if op == "add":
                    try:
                        o.add(key)
                    except CuckooFilterFullError:
                        return {"r": "full"}
                    if kind == "ccuckoo":
                        self.fps[fp] = self.fps.get(fp, 0) + 1
                    else:
                        self.fps[fp] = 1
                    self.out[step["k"]] = 1
                else:
                    o.remove(key)
                    if fp in self.fps:
                        self.fps[fp] -= 1
                        if self.fps[fp] == 0:
                            del self.fps[fp]
                    self.out.pop(step["k"], None)
            finally:
                self.sr.disarm()
            return {"r": "ok"}
        if op == "add":
            if kind in ("bloom", "ondisk"):
                o.add(key)
                ref.add(key)
            elif kind in ("expanding", "rotating"):
                o.add(key, step["force"])
                ref.add(key, step["force"])
            else:
                o.add(key, step["n"])
                ref.add(key, step["n"])
                self.out[step["k"]] = self.out.get(step["k"], 0) + step["n"]
        elif op == "remove":
            if step.get("free") and kind.startswith("cms"):
                ctx.probe("over_removal")
            elif self.out.get(step["k"], 0) < step["n"]:
                return "skip"
            o.remove(key, step["n"])
            ref.remove(key, step["n"])
            self.out[step["k"]] = self.out.get(step["k"], 0) - step["n"]
        elif op == "push":
            o.push()
            ref.push()
        elif op == "pop":
            if o.current_queue_size <= 1:
                return "skip"
            o.pop()
            ref.pop()
        else:
            raise HarnessError(op)
        return {"r": "ok"}

    def finish(self):
        self.compare()

    def run_reader(self, mode, path, keys):
        inp = "".join(kb(k).hex() + "\n" for k in keys)
        p = subprocess.run([READER, mode, path], input=inp, capture_output=True, text=True, timeout=60)
        if p.returncode != 0:
            return None, p.stderr.strip()
        lines = p.stdout.splitlines()
        return lines[1:], lines[0] if lines else ""

    def compare(self):
        ctx = self.ctx
        cfg = self.cfg
        kind = cfg["kind"]
        o = self.o
        W = self.W
        sig = {"kind": kind}
        self.n_files += 1
        path = self.scr.abspath("b", f"export{self.n_files}.bin")
        o.export(path)
        with open(path, "rb") as fh:
            data = fh.read()
        ctx.nontrivial = True
        probes = [akey(k) for k in range(cfg["universe"] + 5)]
        # ---- independent writer: same history -> same file
        if self.ref is not None:
            want = self.ref.export()
            if data != want:
                d = next((i for i in range(min(len(data), len(want))) if data[i] != want[i]), None)
                raise Violation("file_differs_from_reference_writer",
                                f"{kind}: exported file ({len(data)} bytes) differs from the independent writer's "
                                f"({len(want)} bytes), first difference at byte {d}", sig)
            ctx.count("writer_files_compared")
        else:
            counting = kind == "ccuckoo"
            p = W.parse_cuckoo(data, counting)
            if p is None:
                raise Violation("cuckoo_layout", "cuckoo export does not parse by the documented layout", sig)
            if (p["bucket_size"], p["max_swaps"], p["capacity"]) != (o.bucket_size, o.max_swaps, o.capacity):
                raise Violation("cuckoo_layout", f"footer/size give bucket_size={p['bucket_size']} max_swaps="
                                                 f"{p['max_swaps']} capacity={p['capacity']}; filter has "
                                                 f"{(o.bucket_size, o.max_swaps, o.capacity)}", sig)
            got = {}
            for i, b in enumerate(p["buckets"]):
                for ent in b:
                    fp, cnt = ent if counting else (ent, 1)
                    if i not in W.cuckoo_buckets_of(fp, p["capacity"]):
                        raise Violation("cuckoo_layout", f"fingerprint {fp} stored in bucket {i}, not one of "
                                                         f"{W.cuckoo_buckets_of(fp, p['capacity'])}", sig)
                    if fp in got:
                        raise Violation("cuckoo_layout", f"fingerprint {fp} appears twice in the file", sig)
                    got[fp] = cnt
            if got != self.fps:
                raise Violation("cuckoo_content", f"file holds fingerprints {sorted(got.items())[:8]}, the additions give "
                                                  f"{sorted(self.fps.items())[:8]}", sig)
            ctx.count("cuckoo_files_parsed")
            return {"r": "ok", "bytes": len(data)}
        # ---- independent C reader: file + key -> same answer as the library
        mode = {"bloom": "bloom", "ondisk": "bloom", "cbloom": "cbloom"}.get(kind, kind if kind.startswith("cms") else None)
        if mode is not None:
            ans, head = self.run_reader(mode, path, probes)
            if ans is None:
                raise Violation("reader_rejects_file", f"the reference C reader rejects the {kind} export: {head}", sig)
            for key, a in zip(probes, ans):
                try:
                    lib = o.check(key)
                except ZeroDivisionError:
                    lib = "zerodiv"
                if not isinstance(lib, (int, str)):  # bool is an int; a float estimate is not what the format's reader gives
                    raise Violation("reader_disagrees", f"{kind}: key {key!r}: the library answers {lib!r} "
                                                        f"({type(lib).__name__}), the C reader {a}", sig)
                libs = str(int(lib)) if not isinstance(lib, str) else lib
                if a != libs:
                    raise Violation("reader_disagrees", f"{kind}: key {key!r}: C reader says {a}, library says {libs} "
                                                        f"(header {head})", sig)
            ctx.count("reader_answers_compared", len(ans))
            ctx.fault("peer_reader_run")
        # ---- C header export
        if kind in ("bloom", "cbloom", "ondisk") and o.elements_added >= 0 and kind != "ondisk":
            hpath = self.scr.abspath("b", f"export{self.n_files}.h")
            o.export_c_header(hpath)
            with open(hpath) as fh:
                consts, arr = W.parse_c_header(fh.read())
            hexbytes = bytes.fromhex(o.export_hex())
            if arr != hexbytes:
                raise Violation("c_header_wrong", "array in the C header differs from the hex export", sig)
            want = {"estimated_elements": str(o.estimated_elements), "elements_added": str(o.elements_added),
                    "number_bits": str(o.number_bits), "number_hashes": str(o.number_hashes)}
            for k, v in want.items():
                if consts.get(k) != v:
                    raise Violation("c_header_wrong", f"constant {k} = {consts.get(k)} in the header, property says {v}", sig)
            if abs(float(consts.get("false_positive_rate", "nan")) - o.false_positive_rate) > 1e-12:
                raise Violation("c_header_wrong", f"false_positive_rate {consts.get('false_positive_rate')}", sig)
            ctx.count("c_headers_checked")
        ctx.state(kind, len(data))
        return {"r": "ok", "bytes": len(data)}

    def simplify_step(self, step):
        if step.get("n", 1) > 1:
            s = dict(step)
            s["n"] = 1
            yield s


def _prepare():
    ensure_reader()


SPEC = PropSpec(
    prop="C06",
    scenarios=[(1, C06Layout)],
    runs={"quick": 6000, "thorough": 150000},
    rule=("TWO-PARTY, no fault injected.  one run = one structure kind (Bloom, on-disk Bloom, counting Bloom, count-min "
          "min/mean/mean-min, expanding, rotating, cuckoo, counting cuckoo) with the default FNV-1a strategy and ASCII / "
          "bytes keys, a seeded operation history, and export points; at each export point (a) the independent writer "
          "(refpy/writer.py) replays the same history and must produce the identical file (cuckoo formats: the file is "
          "parsed by layout and must hold exactly the model's fingerprints/counts in legal buckets), (b) the independent "
          "C reader (refc/reader.c, gcc) derives the geometry from the footer and must answer every probe key like the "
          "library, (c) export_c_header must equal the hex export and the properties.  non-trivial = every run (each "
          "compares at least one file); distinct = event-log digests"),
    state_measure="distinct (kind, file length)",
    assumptions=["the C reader and the writer are written from the property's description, not from the upstream C "
                 "sources (no network): 'C-compatible' means compatible with that description",
                 "round() in the geometry is round-half-even in both parties (nearbyint)",
                 "division in mean / mean-min queries is floor division, as in the library"],
    real_components=["export() of ten classes to real files; export_c_header; export_hex", "gcc-built reference reader (separate process)"],
    stubbed_components=["`random` in cuckoo modules -> SimRandom (uniform strategy)"],
    chunk=10,
)
SPEC.prepare = _prepare
SPEC.worker_init = _prepare
