"""C19 - queries never change a structure; clear() returns it to its initial state."""
import gc
import io
import os

from ..core import HarnessError, Scenario, Violation
from .. import seams
from ..worlds import common, structs
from ..worlds.cuckoo import CuckooWorld
from ..worlds.quotient import QuotientWorld
from . import PropSpec

STYLES = ("abs", "rel", "path", "relpath")
CLEARABLE = ("BloomFilter", "BloomFilterOnDisk", "CountingBloomFilter", "CountMinSketch", "CountMeanSketch",
             "CountMeanMinSketch", "HeavyHitters", "StreamThreshold")


def gen_reads(rng, universe, n):
    calls = []
    for _ in range(n):
        r = rng.below(100)
        k = rng.below(universe + 6)
        if r < 25:
            calls.append(["check", k])
        elif r < 35:
            calls.append(["in", k])
        elif r < 45:
            calls.append(["hashes", k, rng.choice((None, 1, 2, 7))])
        elif r < 52:
            calls.append(["str"])
        elif r < 60:
            calls.append(["stats"])
        elif r < 72:
            calls.append(["export", rng.choice(("bytes", "path", "fileobj", "hex")), rng.choice(STYLES)])
        elif r < 82:
            calls.append(["export_fail", rng.between(1, 3)])
        elif r < 87:
            calls.append(["c_header"])
        else:
            calls.append(["nonrecv", rng.choice(("union", "intersection", "jaccard_index", "join")),
                          [rng.below(universe) for _ in range(rng.between(0, 3))]])
    return calls


class C19Struct(Scenario):
    prop = "C19"
    max_steps = 30

    def gen_config(self, rng):
        name = rng.choice(sorted(structs.ALL_SUBJECTS))
        cfg = structs.gen_cfg_for(name, rng)
        cfg.update({"subject": name, "steps": rng.between(3, self.max_steps), "saturate": rng.chance(1, 6),
                    "negatives": rng.chance(1, 3)})
        if name in ("BloomFilter", "CountingBloomFilter") and rng.chance(1, 25):
            al = common.aligned_geometries()["cells" if name == "CountingBloomFilter" else "bytes"]
            if al:
                cfg["est"], cfg["rate"] = rng.choice(al)  # array length an exact multiple of 4096
                cfg["steps"] = rng.between(3, 12)
                cfg["aligned"] = True
        return cfg

    def gen_step(self, rng):
        if self.n_gen >= self.cfg["steps"]:
            return None
        self.n_gen += 1
        r = rng.below(100)
        if r < 55:
            return {"op": "mut", "m": self.sub.gen_op(rng)}
        if r < 62 and self.cfg["subject"] in ("BloomFilter", "CountingBloomFilter"):
            # states reached through set operations / the public counter setter: bits set with an ESTIMATED or
            # caller-chosen element count (possibly 0)
            if rng.chance(1, 3):
                return {"op": "setcount", "v": rng.choice((0, 0, 1, 7))}
            return {"op": "derive", "which": rng.choice(("intersection", "union")),
                    "ks": [rng.below(self.cfg["universe"] + 3) for _ in range(rng.between(0, 4))]}
        if r < 90:
            return {"op": "reads", "calls": gen_reads(rng, self.cfg["universe"], rng.between(1, 8))}
        if self.cfg["subject"] in CLEARABLE:
            return {"op": "clear", "suffix": [self.sub.gen_op(rng) for _ in range(rng.between(0, 5))]}
        return {"op": "reads", "calls": gen_reads(rng, self.cfg["universe"], rng.between(1, 8))}

    def setup(self, cfg):
        self.cfg = cfg
        self.n_gen = 0
        self.env = structs.Env(self.ctx, cfg)
        self.sub = structs.ALL_SUBJECTS[cfg["subject"]](self.env, cfg)
        self.sub.build()
        self.extra = []

    def teardown(self):
        for o in getattr(self, "extra", []):
            try:
                o.close()
            except Exception:
                pass
        if getattr(self, "sub", None) is not None:
            self.sub.close()
        gc.collect()
        if getattr(self, "env", None) is not None:
            self.env.cleanup()

    # ------------------------------------------------------------------ observation
    def snapshot(self, sub=None):
        sub = sub or self.sub
        o = sub.obj
        name = sub.name
        snap = {"count": o.elements_added}
        try:
            snap["bytes"] = bytes(o)
        except Exception as e:  # e.g. a counter the format cannot pack: still must be the same before and after
            snap["bytes"] = "exc:" + type(e).__name__
        if name in structs.BLOOM_SUBJECTS:
            snap["stats"] = [o.estimate_elements(), repr(o.current_false_positive_rate()), o.export_size()]
            snap["cells"] = bytes(o.bloom) if not o.is_on_disk else bytes(o)
            if name == "BloomFilterOnDisk":
                snap["file"] = common.read_fresh(self.env.scr.abspath(*sub.home))
            if name != "BloomFilterOnDisk":
                try:
                    snap["hex"] = o.export_hex()
                except Exception as e:
                    snap["hex"] = "exc:" + type(e).__name__
        if name in structs.EXP_SUBJECTS:
            snap["n"] = o.expansions
        if name == "HeavyHitters":
            snap["table"] = sorted((repr(k), v) for k, v in o.heavy_hitters.items())
        if name == "StreamThreshold":
            snap["table"] = sorted((repr(k), v) for k, v in o.meets_threshold.items())
        if name in structs.SKETCH_SUBJECTS:
            snap["mode"] = o.query_type
        return snap

    def sibling(self, ks):
        """A compatible second operand for the non-receiver calls."""
        import probables

        name = self.sub.name
        cfg = self.cfg
        hf = self.env.hf
        if name in ("BloomFilter", "BloomFilterOnDisk"):
            s = probables.BloomFilter(cfg["est"], cfg["rate"], hash_function=hf)
        elif name == "CountingBloomFilter":
            s = probables.CountingBloomFilter(cfg["est"], cfg["rate"], hash_function=hf)
        elif name in ("CountMinSketch", "CountMeanSketch", "CountMeanMinSketch"):
            s = probables.CountMinSketch(width=self.sub.obj.width, depth=self.sub.obj.depth, hash_function=hf)
        else:
            return None
        for k in ks:
            s.add(seams.key_of(k))
        return s

    def read_call(self, call):
        ctx = self.ctx
        sub = self.sub
        o = sub.obj
        name = sub.name
        kind = call[0]
        scr = self.env.scr
        ctx.count("read." + kind)
        if kind == "check":
            key = seams.key_of(call[1])
            o.check(key)
        elif kind == "in":
            seams.key_of(call[1]) in o
        elif kind == "hashes":
            if hasattr(o, "hashes"):
                if call[2] is None:
                    o.hashes(seams.key_of(call[1]))
                else:
                    o.hashes(seams.key_of(call[1]), call[2])
        elif kind == "str":
            if name in ("CountingBloomFilter",) and o.number_bits == 0:
                return
            str(o)
        elif kind == "stats":
            for nm in ("estimate_elements", "current_false_positive_rate", "export_size"):
                if hasattr(o, nm):
                    getattr(o, nm)()
            for nm in ("false_positive_rate", "estimated_elements", "number_hashes", "number_bits", "bloom_length",
                       "is_on_disk", "expansions", "width", "depth", "confidence", "error_rate", "query_type",
                       "max_queue_size", "current_queue_size", "number_heavy_hitters", "threshold"):
                if hasattr(o, nm):
                    getattr(o, nm)
        elif kind == "export":
            chan = call[1]
            if chan not in sub.channels:
                chan = sub.channels[0]
            if o.elements_added < 0:
                return
            where = ("b", self.env.fresh_name("out"))
            sub.export(chan, where, call[2])
            ctx.fault("export_" + chan)
        elif kind == "export_fail":
            if name == "BloomFilterOnDisk" or o.elements_added < 0:
                return
            sink = seams.SimFile(fail_at=call[1])
            try:
                o.export(sink)
            except OSError:
                pass
            if sink.failed:
                ctx.fault("sink_error")
        elif kind == "c_header":
            if name in structs.BLOOM_SUBJECTS and o.elements_added >= 0:
                o.export_c_header(scr.abspath("b", self.env.fresh_name("h")))
        elif kind == "nonrecv":
            s = self.sibling(call[2])
            if s is None:
                return
            which = call[1]
            if name in ("CountMinSketch", "CountMeanSketch", "CountMeanMinSketch"):
                s.join(o)
            else:
                if which == "join":
                    which = "union"
                getattr(s, which)(o)
            ctx.fault("nonreceiver_" + which)
        else:
            raise HarnessError(kind)

    # ------------------------------------------------------------------ apply
    def apply(self, step):
        ctx = self.ctx
        sub = self.sub
        op = step["op"]
        ctx.count("op." + op)
        sig = {"class": sub.name, "op": op}
        if op == "mut":
            try:
                r = sub.apply_op(step["m"])
            except Exception as e:
                ctx.count("mutation_raised." + type(e).__name__)
                return {"r": "exc"}
            return {"r": "ok"}
        if op in ("derive", "setcount"):
            if sub.name not in ("BloomFilter", "CountingBloomFilter"):
                return "skip"
            if op == "setcount":
                sub.obj.elements_added = step["v"]
                ctx.fault("counter_set")
                return {"r": "ok"}
            sib = self.sibling(step["ks"])
            res = getattr(sub.obj, step["which"])(sib)
            if res is None:
                return "skip"
            sub.obj = res
            sub.model = {}
            sub.cfg["saturated"] = True  # the Counter model no longer bounds removals
            ctx.fault("derived_state")
            return {"r": "ok", "count": res.elements_added}
        if op == "reads":
            before = self.snapshot()
            for call in step["calls"]:
                try:
                    self.read_call(call)
                except (Violation, HarnessError):
                    raise
                except ZeroDivisionError:
                    ctx.count("read_raised.ZeroDivisionError")  # mean-min width 1 / empty geometry: outside every statement
                except Exception as e:
                    ctx.count("read_raised." + type(e).__name__)
                after = self.snapshot()
                if after != before:
                    diff = [k for k in before if before[k] != after.get(k)]
                    raise Violation("query_changed_state", f"{sub.name}: read-only call {call} changed {diff} "
                                                           f"(count {before['count']} -> {after['count']})",
                                    dict(sig, call=call[0]))
            ctx.nontrivial = True
            ctx.state(sub.name, tuple(sorted({c[0] for c in step["calls"]})))
            return {"r": "ok"}
        if op == "clear":
            if sub.name not in CLEARABLE:
                return "skip"
            return self.do_clear(step, sig)
        raise HarnessError(op)

    def do_clear(self, step, sig):
        ctx = self.ctx
        sub = self.sub
        sub.apply_op({"op": "clear"})
        ctx.fault("clear")
        ctx.nontrivial = True
        # a freshly constructed twin with the same parameters
        twin = structs.ALL_SUBJECTS[sub.name](self.env, dict(self.cfg))
        twin.cfg.pop("saturated", None)
        sub.cfg.pop("saturated", None)
        twin.build()
        if sub.name == "BloomFilterOnDisk":
            self.extra.append(twin.obj)
        try:
            self.compare_twin(sub, twin, "right after clear()", sig)
            for m in step["suffix"]:
                r1 = r2 = None
                try:
                    r1 = sub.apply_op(m)
                except Exception as e:
                    r1 = "exc:" + type(e).__name__
                try:
                    r2 = twin.apply_op(m)
                except Exception as e:
                    r2 = "exc:" + type(e).__name__
                if r1 != r2:
                    raise Violation("cleared_differs_from_fresh", f"{sub.name}: after clear(), {m} returned {r1!r}; on a fresh "
                                                                  f"object it returns {r2!r}", sig)
                self.compare_twin(sub, twin, f"after clear() and {m}", sig)
        finally:
            if sub.name == "BloomFilterOnDisk":
                twin.close()
        return {"r": "ok"}

    def compare_twin(self, sub, twin, when, sig):
        a = self.snapshot(sub)
        b = self.snapshot(twin)
        a.pop("file", None)
        file_b = b.pop("file", None)
        if a != b:
            diff = [k for k in a if a[k] != b.get(k)]
            raise Violation("cleared_differs_from_fresh", f"{sub.name} {when}: differs from a freshly constructed one in {diff} "
                                                          f"(count {a['count']} vs {b['count']})", sig)
        if sub.name == "BloomFilterOnDisk":
            fa = common.read_fresh(self.env.scr.abspath(*sub.home))
            if fa != file_b:
                raise Violation("cleared_differs_from_fresh", f"BloomFilterOnDisk {when}: backing file differs from a fresh "
                                                              f"filter's (footer {common.bloom_footer(fa)} vs "
                                                              f"{common.bloom_footer(file_b)})", sig)
        probes = [seams.key_of(k) for k in range(self.cfg["universe"] + 2)]
        for key in probes:
            try:
                va, vb = sub.obj.check(key), twin.obj.check(key)
            except ZeroDivisionError:
                continue
            if va != vb:
                raise Violation("cleared_differs_from_fresh", f"{sub.name} {when}: check({key!r}) {va} vs fresh {vb}", sig)

    def simplify_step(self, step):
        if step["op"] == "reads" and len(step["calls"]) > 1:
            for j in range(len(step["calls"])):
                s = dict(step)
                s["calls"] = [step["calls"][j]]
                yield s
        if step["op"] == "clear" and step["suffix"]:
            s = dict(step)
            s["suffix"] = step["suffix"][:-1]
            yield s

    def simplify_config(self, cfg):
        if cfg["hash"] != "fnv":
            c = dict(cfg)
            c["hash"] = "fnv"
            yield c


class C19Cuckoo(CuckooWorld):
    prop = "C19"

    def gen_step(self, rng):
        st = super().gen_step(rng)
        if st is not None and rng.chance(1, 4):
            return {"op": "restart", "reads": [[rng.choice(("check", "in", "str", "lf", "bytes", "export_fail", "props")),
                                                rng.below(self.cfg["universe"] + 6)] for _ in range(rng.between(1, 6))]}
        return st

    allow_restart = True

    def judge(self, f, model, pre_model, step, out, branch):
        if out["r"] != "ok":
            self.adopt(f, model, step)

    def snap(self):
        f = self.f
        s = {"table": self.table(), "count": f.elements_added, "cap": f.capacity, "bytes": bytes(f)}
        if self.counting:
            s["uniq"] = f.unique_elements
        return s

    def do_restart(self, step):
        from ..worlds.cuckoo import cuckoo_export, cuckoo_load

        if "reads" not in step:
            # a real restart: reads are also made on tables obtained by loading an export
            payload, path = cuckoo_export(self, self.f, step["chan"])
            self.f = cuckoo_load(self, payload, path, step["chan"])
            self.ctx.fault("restart_" + step["chan"])
            self.adopt(self.f, self.model, {"op": "restart"})
            return {"r": "ok"}
        f = self.f
        before = self.snap()
        for kind, k in step.get("reads", []):
            key = seams.key_of(k)
            self.ctx.count("read." + kind)
            if kind == "check":
                f.check(key)
            elif kind == "in":
                key in f
            elif kind == "str":
                str(f)
            elif kind == "lf":
                f.load_factor()
            elif kind == "bytes":
                bytes(f)
            elif kind == "props":
                (f.error_rate, f.fingerprint_size, f.fingerprint_size_bits, f.max_swaps, f.bucket_size, f.expansion_rate,
                 f.auto_expand, f.buckets)
            elif kind == "export_fail":
                sink = seams.SimFile(fail_at=1 + k % 3)
                try:
                    f.export(sink)
                except OSError:
                    pass
                if sink.failed:
                    self.ctx.fault("sink_error")
            after = self.snap()
            if after != before:
                diff = [x for x in before if before[x] != after[x]]
                raise Violation("query_changed_state", f"{self.cls.__name__}: read-only call {kind} changed {diff}",
                                {"class": self.cls.__name__, "op": "reads", "call": kind})
        self.ctx.nontrivial = True
        return {"r": "ok"}


class C19Quotient(QuotientWorld):
    prop = "C19"
    try_refusals = True

    def gen_step(self, rng):
        st = super().gen_step(rng)
        if st is not None and rng.chance(1, 4):
            return {"op": "auto", "v": self.auto, "reads": [[rng.choice(("check", "check_alt", "in", "get_hashes", "print",
                                                                           "validate", "props")),
                                                               rng.below(len(self.cfg["uni"]))]
                                                              for _ in range(rng.between(1, 6))]}
        return st

    def snap(self):
        f = self.f
        buf = io.StringIO()
        f.print(file=buf)
        return {"layout": buf.getvalue(), "count": f.elements_added, "size": f.size, "hashes": sorted(f.get_hashes())}

    def observe(self, step):
        if not self.claim_open or "reads" not in step:
            return
        f = self.f
        uni = self.cfg["uni"]
        try:
            before = self.snap()
        except Exception:
            return
        for kind, i in step["reads"]:
            h = uni[i % len(uni)]
            key = seams.key_of(i % len(uni))
            self.ctx.count("read." + kind)
            fn = {
                "check": lambda: f.check(key), "check_alt": lambda: f.check_alt(h), "in": lambda: key in f,
                "get_hashes": f.get_hashes, "print": lambda: f.print(file=io.StringIO()),
                "validate": f.validate_metadata,
                "props": lambda: (f.quotient, f.remainder, f.num_elements, f.bits_per_elm, f.load_factor, f.auto_expand,
                                  f.max_load_factor),
            }[kind]
            st, v = self.call(fn, kind)
            after = self.snap()
            if after != before:
                diff = [x for x in before if before[x] != after[x]]
                raise Violation("query_changed_state", f"QuotientFilter: read-only call {kind} changed {diff}",
                                dict(self.full_sig(), **{"class": "QuotientFilter", "op": "reads", "call": kind}))
        self.ctx.nontrivial = True


SPEC = PropSpec(
    prop="C19",
    scenarios=[(6, C19Struct), (2, C19Cuckoo), (2, C19Quotient)],
    runs={"quick": 16000, "thorough": 400000},
    rule=("every world's history is interrupted at seeded points: the full observable state is captured (exports over "
          "bytes/hex, counters, bucket table, get_hashes + metadata print, tracking tables, the backing file of on-disk "
          "filters), a seeded batch of read-only calls runs (check / in with present and absent str and bytes keys, "
          "hashes(key[,depth]), str(), statistics and properties, every export channel in 4 path spellings, an export "
          "into a sink that fails at its 1st..3rd write, export_c_header, being the non-receiver of union / "
          "intersection / jaccard / join, quotient-filter print / validate_metadata), and the state is compared after "
          "EACH call.  clear() on the eight clearable classes: the cleared object and a freshly built twin must agree on "
          "all observables right away and after each step of a common seeded suffix.  non-trivial = a read batch or a "
          "clear fired; distinct = event-log digests"),
    state_measure="distinct (class, set of read-call kinds)",
    assumptions=["CPython 3.12", "a raising read-only call is only counted (the property speaks about state, not about "
                 "the call succeeding)"],
    real_components=["all structures' read paths, exports, export_c_header, set operations as non-receiver; real files"],
    stubbed_components=["export sink -> SimFile failing at a seeded write (sink_error)", "hash_function", "`random` -> SimRandom"],
)
