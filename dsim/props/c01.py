"""C01 - Bloom filters (in-memory, on-disk, expanding) never report an added key as absent."""
import gc

from ..core import HarnessError, Scenario, Violation
from .. import seams
from ..worlds import common, structs
from . import PropSpec

STYLES = ("abs", "rel", "path", "relpath")
SUBJECTS = ("BloomFilter", "BloomFilterOnDisk", "ExpandingBloomFilter")


class C01Bloom(Scenario):
    prop = "C01"
    max_steps = 45

    def gen_config(self, rng):
        name = rng.choice(SUBJECTS)
        if name == "ExpandingBloomFilter":
            cfg = structs.ExpandingSubject.gen_cfg(rng)
        else:
            cfg = structs.BloomSubject.gen_cfg(rng, small=rng.chance(2, 3))
        cfg.update({"subject": name, "steps": rng.between(4, self.max_steps), "fault_free": rng.chance(1, 5),
                    "universe": rng.choice((6, 12, 24, 48))})
        if name != "ExpandingBloomFilter" and rng.chance(1, 150):
            # bit arrays of more than 64 KiB (whatever is merged, copied or written in blocks)
            est, rate = rng.choice(((100000, 0.05), (60000, 0.01), (110000, 0.01)))
            cfg.update({"est": est, "rate": rate, "steps": rng.between(4, 12), "large": True, "universe": 24})
        return cfg

    def gen_step(self, rng):
        cfg = self.cfg
        if self.n_gen >= cfg["steps"]:
            return None
        self.n_gen += 1
        name = self.kind
        ff = cfg["fault_free"]
        r = rng.below(100)
        if self.closed:
            return {"op": "reopen", "style": rng.choice(STYLES)}
        if r < 60 or ff and r < 90:
            st = {"op": "add", "k": rng.below(cfg["universe"])}
            if name == "ExpandingBloomFilter":
                st["force"] = rng.chance(1, 8)
            return st
        if ff:
            if name == "ExpandingBloomFilter":
                return {"op": "push"}
            return {"op": "union", "ks": [rng.below(cfg["universe"]) for _ in range(rng.between(0, 4))], "ondisk": False,
                    "side": "recv"}
        if r < 70:
            if name == "ExpandingBloomFilter":
                return {"op": "push"}
            return {"op": "union", "ks": [rng.below(cfg["universe"]) for _ in range(rng.between(0, 5))],
                    "ondisk": rng.chance(1, 3), "side": rng.choice(("recv", "arg"))}
        if r < 88:
            chans = structs.ALL_SUBJECTS[name].channels
            return {"op": "restart", "chan": rng.choice(chans), "dir": rng.choice(seams.Scratch.DIRS),
                    "style": rng.choice(STYLES), "stale": rng.chance(1, 3)}
        if r < 89:
            return {"op": "chdir", "dir": rng.choice(seams.Scratch.DIRS)}
        if r < 91:
            # hash lists of several keys computed first, used afterwards
            return {"op": "batch", "ks": [rng.below(cfg["universe"]) for _ in range(rng.between(2, 5))]}
        if r < 94:
            # another structure in the same process uses the same hash strategy at another depth, on the same keys
            # and on many others (strategies may keep process-global state such as caches)
            return {"op": "noise", "depth": rng.choice((1, 2, 3, 7, 40)), "flood": rng.choice((0, 100, 700)),
                    "tag": rng.below(1000)}
        if r < 96 and name != "ExpandingBloomFilter":
            return {"op": "clear"}
        if name == "BloomFilterOnDisk":
            return {"op": rng.choice(("close", "drop"))}
        return {"op": "add", "k": rng.below(cfg["universe"])}

    def setup(self, cfg):
        self.cfg = cfg
        self.n_gen = 0
        self.env = structs.Env(self.ctx, cfg)
        self.kind = cfg["subject"]
        self.sub = structs.ALL_SUBJECTS[self.kind](self.env, cfg)
        self.sub.build()
        self.m, self.k = common.geometry(cfg["est"], cfg["rate"])
        self.model = set()
        self.prev = None  # previous exported bit array(s)
        self.closed = False
        self.extra = []  # on-disk siblings to close

    def teardown(self):
        for o in getattr(self, "extra", []):
            try:
                o.close()
            except Exception:
                pass
        if getattr(self, "sub", None) is not None:
            self.sub.close()
        gc.collect()
        if getattr(self, "env", None) is not None:
            self.env.cleanup()

    def hasher(self):
        if getattr(self, "_hasher", None) is None:
            from probables import BloomFilter

            self._hasher = BloomFilter(self.cfg["est"], self.cfg["rate"], hash_function=self.env.hf)
        return self._hasher

    def become(self, obj, kind):
        if kind != self.kind:
            self.sub = structs.ALL_SUBJECTS[kind](self.env, self.cfg)
            self.sub.m, self.sub.k = self.m, self.k
            self.kind = kind
        self.sub.obj = obj

    def apply(self, step):
        ctx = self.ctx
        op = step["op"]
        ctx.count("op." + op)
        sub = self.sub
        scr = self.env.scr
        if self.closed and op != "reopen" and op != "chdir":
            return "skip"
        if op == "add":
            key = seams.key_of(step["k"])
            if self.kind == "ExpandingBloomFilter":
                structs.api_add(sub.obj, key, step.get("alt"), force=bool(step.get("force", False)), hasher=self.hasher())
            else:
                structs.api_add(sub.obj, key, step.get("alt"))
            self.model.add(step["k"])
        elif op == "push":
            if self.kind != "ExpandingBloomFilter":
                return "skip"
            sub.obj.push()
            ctx.fault("push")
            ctx.nontrivial = True
        elif op == "clear":
            if self.kind == "ExpandingBloomFilter":
                return "skip"
            sub.obj.clear()
            self.model = set()
            self.prev = None
        elif op == "union":
            if self.kind == "ExpandingBloomFilter":
                return "skip"
            from probables import BloomFilter, BloomFilterOnDisk

            if step["ondisk"]:
                name = self.env.fresh_name("blm")
                sib = BloomFilterOnDisk(scr.abspath("b", name), self.cfg["est"], self.cfg["rate"], hash_function=self.env.hf)
                self.extra.append(sib)
            else:
                sib = BloomFilter(self.cfg["est"], self.cfg["rate"], hash_function=self.env.hf)
            for k in step["ks"]:
                sib.add(seams.key_of(k))
            res = sub.obj.union(sib) if step["side"] == "recv" else sib.union(sub.obj)
            if res is None:
                raise Violation("union_refused", "union of two filters with the same geometry and hash returned None",
                                {"class": self.kind, "op": "union"})
            if self.kind == "BloomFilterOnDisk":
                sub.obj.close()
            self.become(res, "BloomFilter")
            self.model |= set(step["ks"])
            ctx.fault("union")
            ctx.nontrivial = True
        elif op == "restart":
            chan = step["chan"]
            if chan not in sub.channels:
                return "skip"
            if sub.obj.elements_added < 0:
                return "skip"  # union of saturated filters carries -1 by design and cannot be packed
            where = (step["dir"], self.env.fresh_name(sub.ext))
            if chan == "path" and step["stale"]:
                with open(scr.abspath(*where), "wb") as fh:
                    fh.write(b"\xC3" * 9000)
                ctx.fault("stale_dest")
            payload = sub.export(chan, where, step["style"])
            g = sub.load(payload, chan, where, step["style"])
            if self.kind == "BloomFilterOnDisk":
                if chan == "bytes":
                    sub.obj.close()
                    self.become(g, "BloomFilter")
                else:
                    sub.obj.close()
                    sub.obj = g
                    sub.home = where
            else:
                sub.obj = g
            ctx.fault("restart_" + chan)
            ctx.nontrivial = True
        elif op == "chdir":
            scr.chdir(step["dir"])
            ctx.fault("cwd_change")
        elif op == "batch":
            h = self.hasher() if self.kind == "ExpandingBloomFilter" else sub.obj
            lists = [h.hashes(seams.key_of(k)) for k in step["ks"]]
            for k, hs in zip(step["ks"], lists):
                sub.obj.add_alt(hs)
                self.model.add(k)
            ctx.count("batch_adds", len(lists))
        elif op == "noise":
            from probables.hashes import default_fnv_1a

            hf = self.env.hf or default_fnv_1a
            for k in range(self.cfg["universe"]):
                hf(seams.key_of(k), step["depth"])
            for i in range(step["flood"]):
                hf(f"noise-{step['tag']}-{i}", step["depth"])
            ctx.fault("other_user_of_hash_strategy")
        elif op in ("close", "drop"):
            if self.kind != "BloomFilterOnDisk":
                return "skip"
            if op == "close":
                sub.obj.close()
            else:
                sub.obj = None
                gc.collect()
            self.closed = True
            ctx.fault("close_reopen" if op == "close" else "drop_handle")
            ctx.nontrivial = True
            return {"r": "closed"}
        elif op == "reopen":
            if not self.closed:
                return "skip"
            # reopen with cwd = the file's directory: C01 does not inherit C11's "from any directory" clause
            scr.chdir(sub.home[0])
            sub.obj = sub.cls()(scr.spell(sub.home[0], sub.home[1], step["style"]), hash_function=self.env.hf)
            self.closed = False
        else:
            raise HarnessError(op)
        if self.closed:
            return {"r": "ok"}
        self.oracle(step)
        return {"r": "ok", "n": len(self.model)}

    def oracle(self, step):
        sub = self.sub
        o = sub.obj
        sig = {"class": self.kind, "op": step["op"], "chan": step.get("chan")}
        for k in sorted(self.model):
            key = seams.key_of(k)
            alt_ok = structs.api_check(o, key, alt=True, hasher=self.hasher() if self.kind == "ExpandingBloomFilter" else None,
                                       longer=(0, 0, 3)[k % 3])
            if o.check(key) is not True or not (key in o) or alt_ok is not True:
                raise Violation("false_negative", f"{self.kind}: key {k} ({key!r}) was added and is reported absent after "
                                                  f"{step} (bits={self.m}, hashes={self.k}, hash={self.cfg['hash']})", sig)
        # exported bit array: bits never disappear
        if getattr(o, "elements_added", 0) < 0:
            return
        payload = bytes(o)
        if self.kind == "ExpandingBloomFilter":
            parsed = common.parse_expanding(payload, self.m)
            if parsed is None:
                raise Violation("stream_malformed", f"expanding export does not parse by layout after {step}", sig)
            cur = parsed[1]
            self.ctx.state("exp", len(cur))
        else:
            cur = [payload[:-20]]
        if self.prev is not None:
            if len(cur) < len(self.prev):
                raise Violation("subfilter_dropped", f"{len(self.prev)} -> {len(cur)} sub-filters after {step}", sig)
            for i, old in enumerate(self.prev):
                new = cur[i]
                if len(new) != len(old) or any(a & ~b for a, b in zip(old, new)):
                    raise Violation("bits_disappeared", f"{self.kind}: bit array {i} lost bits after {step}", sig)
        self.prev = cur
        self.ctx.state(self.kind, self.m % 8, min(self.k, 40), self.cfg["hash"], step.get("chan"))


SPEC = PropSpec(
    prop="C01",
    scenarios=[(1, C01Bloom)],
    runs={"quick": 12000, "thorough": 300000},
    rule=("one run = BloomFilter / BloomFilterOnDisk / ExpandingBloomFilter in a drawn sizing (est x rate covering "
          "number_bits mod 8 = 0..7 and 1..~125 hashes) with one of 7 hash strategies (fnv-1a, md5, sha256, two "
          "decorator-built, a hand-written 64-bit oracle, a range-squeezed oracle), str/non-ASCII/bytes keys, and "
          "<=45 steps of add / push / union with a sibling (in-memory or on-disk, either side) / clear / export+load over "
          "bytes, path (4 spellings, stale destination), file object, hex / close or drop + reopen / chdir; after every "
          "step every model key must answer check() is True and `in`, and the exported bit array(s) must be a superset "
          "of the previous one.  non-trivial = a restart, union, push or close/reopen fired; distinct = distinct "
          "event-log digests"),
    state_measure="distinct (class, bits mod 8, hashes, hash strategy, channel) tuples",
    assumptions=["CPython 3.12", "reference model: set of key indices; clear() empties it"],
    real_components=["BloomFilter, BloomFilterOnDisk (real file + mmap on tmpfs), ExpandingBloomFilter, loaders, "
                     "probables.hashes shipped strategies and decorators"],
    stubbed_components=["hash_function for the sim / sim_sq strategies (keyed blake2b, optionally range-squeezed)",
                        "file-object sink -> SimFile"],
)
