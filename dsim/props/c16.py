"""C16 - counters saturate at their integer limits instead of wrapping or failing."""
import struct

from ..core import HarnessError, Scenario, Violation
from .. import seams
from ..worlds import common, structs
from . import PropSpec

U32 = 2**32 - 1
I32MAX = 2**31 - 1
I32MIN = -(2**31)
I64MAX = 2**63 - 1
I64MIN = -(2**63)
U64 = 2**64 - 1
AMOUNTS = (1, 2, 2**31 - 2, 2**31 - 1, 2**31, 2**32 - 2, 2**32 - 1, 2**32, 2**62, 2**63 - 1, 2**63, 2**64 - 1, 2**64, 2**70)


def clamp(v, lo, hi):
    return lo if v < lo else hi if v > hi else v


class C16Saturate(Scenario):
    prop = "C16"
    max_steps = 8

    def gen_config(self, rng):
        kind = rng.choice(("cbf", "cms"))
        if kind == "cbf":
            est, rate = common.draw_geometry(rng, est_choices=(1, 2, 3), rates=(0.5, 0.3, 0.2, 0.1, 0.05), max_bits=40)
            cfg = {"est": est, "rate": rate}
            m, _ = common.geometry(est, rate)
            cfg.update(structs.draw_hash(rng, m))
            if rng.chance(1, 2):
                cfg["hash"] = "sim_sq"
        else:
            cfg = {"sizing": {"width": rng.between(1, 3), "depth": rng.between(1, 3)},
                   "cls": rng.choice(("CountMinSketch", "CountMeanSketch", "CountMeanMinSketch", "HeavyHitters",
                                      "StreamThreshold")),
                   "param": rng.between(1, 5)}
            if cfg["cls"] == "CountMeanMinSketch" and cfg["sizing"]["width"] == 1:
                cfg["sizing"]["width"] = 2  # the mean-min query divides by width-1
            cfg.update(structs.draw_hash(rng, 3))
        cfg.update({"kind": kind, "universe": 3, "steps": rng.between(2, self.max_steps)})
        return cfg

    def gen_amount(self, rng):
        return rng.choice(AMOUNTS) if rng.chance(3, 4) else rng.between(1, 5)

    def gen_step(self, rng):
        if self.n_gen >= self.cfg["steps"]:
            return None
        self.n_gen += 1
        r = rng.below(100)
        k = rng.below(3)
        if r < 50:
            return {"op": "add", "k": k, "n": self.gen_amount(rng)}
        if r < 70:
            return {"op": "remove", "k": k, "n": self.gen_amount(rng)}
        if r < 88:
            st = {"op": "merge", "adds": [[rng.below(3), self.gen_amount(rng) * (-1 if rng.chance(1, 4) else 1)]
                                          for _ in range(rng.between(1, 3))]}
            if rng.chance(1, 3):
                # the join is followed at once by a remove / add, with nothing read in between
                st["then"] = [rng.choice(("remove", "add")), rng.below(3), self.gen_amount(rng)]
            return st
        return {"op": "restart"}

    # ------------------------------------------------------------------ world
    def setup(self, cfg):
        self.cfg = cfg
        self.n_gen = 0
        self.kind = cfg["kind"]
        self.env = structs.Env(self.ctx, cfg, need_fs=False)
        hf = self.env.hf
        if self.kind == "cbf":
            from probables import CountingBloomFilter

            self.o = CountingBloomFilter(cfg["est"], cfg["rate"], hash_function=hf)
            self.m, self.k = common.geometry(cfg["est"], cfg["rate"])
            self.cells = [0] * self.m
        else:
            import probables

            self.C = getattr(probables, cfg["cls"])
            self.o = self.new_sketch()
            self.w, self.d = self.o.width, self.o.depth
            self.cells = [0] * (self.w * self.d)
        self.total = 0
        self.out = {}  # key -> outstanding (big int), for legitimacy of counting-Bloom removals

    def new_sketch(self):
        kw = dict(self.cfg["sizing"])
        if self.cfg["cls"] == "HeavyHitters":
            kw["num_hitters"] = self.cfg["param"]
        if self.cfg["cls"] == "StreamThreshold":
            kw["threshold"] = self.cfg["param"]
        return self.C(hash_function=self.env.hf, **kw)

    def key(self, k):
        return f"key{k}"

    def visits(self, k):
        """cell indices the key addresses, in order, with repetitions."""
        if self.kind == "cbf":
            hs = common.hashes_of(self.env.hf, self.key(k), self.k)
            return [hs[i] % self.m for i in range(self.k)]
        hs = common.hashes_of(self.env.hf, self.key(k), self.d)
        return [(hs[i] % self.w) + i * self.w for i in range(self.d)]

    def read_cells(self, obj=None):
        b = bytes(obj if obj is not None else self.o)
        if self.kind == "cbf":
            arr, foot = b[:-20], b[-20:]
            return list(struct.unpack(f"{len(arr) // 4}I", arr)), struct.unpack("QQf", foot)[1]
        arr, foot = b[:-16], b[-16:]
        return list(struct.unpack(f"{len(arr) // 4}i", arr)), struct.unpack("IIq", foot)[2]

    def call(self, fn, what, sig):
        try:
            return fn()
        except (Violation, HarnessError):
            raise
        except Exception as e:
            # which cells did it leave behind?
            try:
                cells, _ = self.read_cells()
                half = [i for i, (a, b) in enumerate(zip(self.cells_before, cells)) if a != b]
            except Exception:
                half = "?"
            raise Violation("call_raised", f"{what} raised {type(e).__name__}: {e}; cells changed before the exception: "
                                           f"{half}", sig)

    def ret_is_current(self, ret, k, what, sig):
        """the call returns the value of the PINNED state: what a query of the same key says right afterwards"""
        if self.kind == "cbf":
            return
        now = self.call(lambda: self.o.check(self.key(k)), "check", sig)
        if ret != now:
            raise Violation("return_not_pinned", f"{what} returned {ret}; check() right afterwards says {now} "
                                                 f"(element total {self.o.elements_added})", sig)

    def compare(self, what, sig):
        second = getattr(self, "second", None)
        if second is not None:
            # the second operand of the last join is still alive: nothing the receiver does may reach it
            got2 = self.read_cells(second[0])
            if got2 != (second[1], second[2]) or second[0].elements_added != second[2]:
                raise Violation("operand_aliased", f"after {what}: the second operand of an earlier join changed "
                                                   f"(cells/total {got2} expected {(second[1], second[2])})", sig)
        try:
            cells, total = self.read_cells()
        except Exception as e:
            raise Violation("export_failed", f"after {what} the structure can no longer be exported: "
                                             f"{type(e).__name__}: {e} (elements_added={self.o.elements_added})", sig)
        if self.kind == "cbf":
            # the other export channel of the counting Bloom filter must keep working at the limits as well
            try:
                hx = self.o.export_hex()
                g = type(self.o)(hex_string=hx, hash_function=self.env.hf)
                if list(g.bloom) != cells or g.elements_added != total:
                    raise Violation("hex_reload_differs", f"after {what}: export_hex -> load gives different cells / total "
                                                          f"({g.elements_added} vs {total})", sig)
            except Violation:
                raise
            except Exception as e:
                raise Violation("export_failed", f"after {what} export_hex / hex load fails: {type(e).__name__}: {e} "
                                                 f"(elements_added={self.o.elements_added})", sig)
        if cells != self.cells:
            bad = [(i, self.cells[i], cells[i]) for i in range(len(cells)) if cells[i] != self.cells[i]][:4]
            raise Violation("cell_wrong", f"after {what}: (cell, expected, found) {bad}", sig)
        if total != self.total:
            raise Violation("total_wrong", f"after {what}: element total {total}, expected {self.total}", sig)
        if self.o.elements_added != self.total:
            raise Violation("total_wrong", f"after {what}: elements_added {self.o.elements_added}, expected {self.total}",
                            sig)

    def apply(self, step):
        ctx = self.ctx
        op = step["op"]
        ctx.count("op." + op)
        o = self.o
        cbf = self.kind == "cbf"
        sig = {"class": type(o).__name__, "op": op}
        self.cells_before = list(self.cells)
        lim_hi = U32 if cbf else I32MAX
        if op == "add":
            k, n = step["k"], step["n"]
            vis = self.visits(k)
            sig["coinciding"] = len(set(vis)) < len(vis)
            for p in vis:
                self.cells[p] = clamp(self.cells[p] + n, 0 if cbf else I32MIN, lim_hi)
            self.total = min(self.total + n, U64) if cbf else clamp(self.total + n, I64MIN, I64MAX)
            self.out[k] = self.out.get(k, 0) + n
            ret = self.call(lambda: o.add(self.key(k), n), f"add({k}, {n})", sig)
            self.ret_is_current(ret, k, f"add({k}, {n})", sig)
            smallest = min(self.cells[p] for p in vis)
            if smallest == lim_hi:
                ctx.fault("saturated_high")
                ctx.nontrivial = True
                if not cbf and self.cfg["cls"] in ("CountMeanSketch", "CountMeanMinSketch"):
                    pass  # mean mode: the returned value is a mean, not the smallest cell
                elif ret != lim_hi:
                    raise Violation("return_not_pinned", f"add({k}, {n}) returned {ret}; the key's smallest cell is pinned "
                                                         f"at {lim_hi}", sig)
            self.compare(f"add({k}, {n})", sig)
        elif op == "remove":
            k, n = step["k"], step["n"]
            vis = self.visits(k)
            sig["coinciding"] = len(set(vis)) < len(vis)
            if cbf:
                if self.out.get(k, 0) < n:
                    return "skip"  # not a legitimate removal
                mn = min(self.cells[p] for p in vis)
                if mn == U32:
                    t = 0
                    ctx.probe("remove_refused_at_limit")
                else:
                    t = min(n, mn)
                for p in vis:
                    if self.cells[p] < U32:
                        self.cells[p] -= t
                    else:
                        ctx.probe("pinned_cell_not_decremented")
                if any(c < 0 for c in self.cells):
                    raise HarnessError("model underflow on a legitimate removal")
                self.total -= t
                self.out[k] -= t
                ret = self.call(lambda: o.remove(self.key(k), n), f"remove({k}, {n})", sig)
                if mn == U32 and ret != U32:
                    raise Violation("return_not_pinned", f"remove({k}, {n}) returned {ret}, smallest cell pinned at {U32}", sig)
            else:
                if self.cfg["cls"] == "HeavyHitters":
                    return "skip"
                for p in vis:
                    self.cells[p] = clamp(self.cells[p] - n, I32MIN, I32MAX)
                self.total = clamp(self.total - n, I64MIN, I64MAX)
                ret = self.call(lambda: o.remove(self.key(k), n), f"remove({k}, {n})", sig)
                self.ret_is_current(ret, k, f"remove({k}, {n})", sig)
                smallest = min(self.cells[p] for p in vis)
                if smallest == I32MIN:
                    ctx.fault("saturated_low")
                    ctx.nontrivial = True
                    if self.cfg["cls"] not in ("CountMeanSketch", "CountMeanMinSketch") and ret != I32MIN:
                        raise Violation("return_not_pinned", f"remove({k}, {n}) returned {ret}; smallest cell pinned at "
                                                             f"{I32MIN}", sig)
            self.compare(f"remove({k}, {n})", sig)
        elif op == "merge":
            if cbf:
                from probables import CountingBloomFilter

                second = CountingBloomFilter(self.cfg["est"], self.cfg["rate"], hash_function=self.env.hf)
                cells2 = [0] * self.m
                for k, n in step["adds"]:
                    n = abs(n)
                    for p in self.visits(k):
                        cells2[p] = clamp(cells2[p] + n, 0, U32)
                    try:
                        second.add(self.key(k), n)
                    except Exception as e:
                        raise Violation("call_raised", f"building the second operand: add({k}, {n}) raised "
                                                       f"{type(e).__name__}: {e}", dict(sig, op="add"))
                res = self.call(lambda: o.union(second), "union", sig)
                if res is None:
                    raise Violation("union_refused", "union of same-geometry filters returned None", sig)
                want = [clamp(a + b, 0, U32) for a, b in zip(self.cells, cells2)]
                got, _ = self.read_cells(res) if res.elements_added >= 0 else (list(res.bloom), None)
                if got != want:
                    bad = [(i, want[i], got[i]) for i in range(len(want)) if want[i] != got[i]][:4]
                    raise Violation("cell_wrong", f"union: (cell, expected, found) {bad}", sig)
                if any(c == U32 for c in want):
                    ctx.fault("saturated_high")
                    ctx.nontrivial = True
                # operands unchanged (the union is a new filter): keep going with the receiver
                self.compare("union (receiver unchanged)", sig)
            else:
                if self.cfg["cls"] in ("HeavyHitters", "StreamThreshold"):
                    return "skip"  # join not supported by these classes
                second = self.new_sketch()
                cells2 = [0] * (self.w * self.d)
                tot2 = 0
                for k, n in step["adds"]:
                    for p in self.visits(k):
                        cells2[p] = clamp(cells2[p] + n, I32MIN, I32MAX)
                    tot2 = clamp(tot2 + n, I64MIN, I64MAX)
                    if n >= 0:
                        second.add(self.key(k), n)
                    else:
                        second.remove(self.key(k), -n)  # a negative amount in the recipe is a removal
                self.call(lambda: o.join(second), "join", sig)
                then = step.get("then")
                if then:
                    # a second update before anything is read: applied to a copy of the model first, so that the
                    # join's own clause below is still judged on what the join alone must have produced
                    self.ctx.fault("update_right_after_join")
                    t_op, t_k, t_n = then
                    if t_op == "add":
                        self.call(lambda: o.add(self.key(t_k), t_n), f"add({t_k}, {t_n}) right after join", sig)
                    else:
                        self.call(lambda: o.remove(self.key(t_k), t_n), f"remove({t_k}, {t_n}) right after join", sig)
                    got, total = self.read_cells()
                    sgn = 1 if t_op == "add" else -1
                    want_cells = []
                    for i in range(len(got)):
                        a, b = self.cells[i], cells2[i]
                        opts = {clamp(a + b, I32MIN, I32MAX)}
                        if a in (I32MIN, I32MAX):
                            opts.add(a)
                        want_cells.append(opts)
                    for p in self.visits(t_k):
                        want_cells[p] = {clamp(v + sgn * t_n, I32MIN, I32MAX) for v in want_cells[p]}
                    for i in range(len(got)):
                        if got[i] not in want_cells[i]:
                            raise Violation("cell_wrong", f"join then {t_op}({t_k}, {t_n}): cell {i} is {got[i]}, expected one "
                                                          f"of {sorted(want_cells[i])}", sig)
                    want_total = clamp(clamp(self.total + tot2, I64MIN, I64MAX) + sgn * t_n, I64MIN, I64MAX)
                    if total != want_total or o.elements_added != want_total:
                        raise Violation("total_wrong", f"join then {t_op}({t_k}, {t_n}) without a read in between: element "
                                                       f"total {total}, expected {want_total}", sig)
                    self.cells = got
                    self.total = want_total
                    self.second = (second, cells2, tot2)
                    self.compare("join + update", sig)
                    ctx.state(self.kind, tuple(min(c, 3) if c < lim_hi else -1 for c in self.cells))
                    return {"r": "ok", "total": self.total}
                got, total = self.read_cells()
                for i in range(len(got)):
                    a, b = self.cells[i], cells2[i]
                    ok = {clamp(a + b, I32MIN, I32MAX)}
                    if a in (I32MIN, I32MAX):
                        ok.add(a)  # receiver cell already at a limit: the statement is silent, both accepted
                    if got[i] not in ok:
                        raise Violation("cell_wrong", f"join: cell {i} {a} + {b} -> {got[i]}, expected one of {sorted(ok)}",
                                        sig)
                    if got[i] in (I32MIN, I32MAX):
                        ctx.fault("saturated_high")
                        ctx.nontrivial = True
                self.cells = got
                self.total = clamp(self.total + tot2, I64MIN, I64MAX)
                self.second = (second, cells2, tot2)
                self.compare("join", sig)
        elif op == "restart":
            b = self.call(lambda: bytes(o), "bytes()", sig)
            if cbf:
                g = self.call(lambda: type(o).frombytes(b, hash_function=self.env.hf), "frombytes", sig)
            else:
                kw = {}
                if self.cfg["cls"] == "HeavyHitters":
                    kw["num_hitters"] = self.cfg["param"]
                if self.cfg["cls"] == "StreamThreshold":
                    kw["threshold"] = self.cfg["param"]
                g = self.call(lambda: self.C.frombytes(b, hash_function=self.env.hf, **kw), "frombytes", sig)
            if bytes(g) != b:
                raise Violation("reexport_differs", "export -> load -> export changed the bytes", sig)
            self.o = g
            ctx.fault("restart_bytes")
            self.compare("restart", sig)
        else:
            raise HarnessError(op)
        ctx.state(self.kind, tuple(min(c, 3) if c < lim_hi else -1 for c in self.cells))
        return {"r": "ok", "total": self.total}

    def finish(self):
        b = bytes(self.o)
        sig = {"class": type(self.o).__name__, "op": "final_export"}
        g = type(self.o).frombytes(b, hash_function=self.env.hf) if self.kind == "cbf" else None
        if g is not None and bytes(g) != b:
            raise Violation("reexport_differs", "final export -> load -> export changed the bytes", sig)

    def simplify_step(self, step):
        if step.get("n", 1) > 1:
            for v in (1, 2**31, 2**32 - 1):
                if v < step["n"]:
                    s = dict(step)
                    s["n"] = v
                    yield s
        if step["op"] == "merge" and len(step["adds"]) > 1:
            for j in range(len(step["adds"])):
                s = dict(step)
                s["adds"] = step["adds"][:j] + step["adds"][j + 1:]
                yield s

    def simplify_config(self, cfg):
        if cfg["hash"] != "fnv":
            c = dict(cfg)
            c["hash"] = "fnv"
            yield c


SPEC = PropSpec(
    prop="C16",
    scenarios=[(1, C16Saturate)],
    runs={"quick": 100000, "thorough": 2500000},
    rule=("one run = a tiny CountingBloomFilter (<=40 cells, half of the runs with a range-squeezed hash so that a key's "
          "positions coincide) or a width 1..3 x depth 1..3 sketch (min, mean, mean-min, heavy hitters, threshold) and <=8 steps "
          "over 3 keys with amounts from {1,2,2^31-2..2^31,2^32-2..2^32,2^63,2^64,2^70}: add, remove, union/join with a "
          "second structure built from such adds, export+load.  A big-int cell model with the stated pinning "
          "(multiplicity-aware for the counting Bloom filter) must equal the exported cells after every step; every "
          "call must return; a pinned smallest cell must be the returned value and every returned value equals check() right "
          "afterwards; totals pin at the 64-bit limits; the second operand of a join stays alive and never changes.  "
          "non-trivial = some cell reached a limit; distinct = event-log digests"),
    state_measure="distinct abstracted cell vectors (value capped at 3, -1 = pinned)",
    assumptions=["CPython 3.12", "a sketch cell of the receiver already at a limit before join may stay or hold clamp(sum)",
                 "counting-Bloom removals are generated only when legitimate (n <= outstanding by the model)"],
    real_components=["CountingBloomFilter, CountMinSketch family incl. HeavyHitters/StreamThreshold, export/frombytes"],
    stubbed_components=["hash_function (range-squeezed oracle in half of the counting-Bloom runs)"],
)
