"""C12 - union and join equal the structure built from both streams."""
import copy
import gc
import struct

from ..core import HarnessError, Scenario, Violation
from .. import seams
from ..worlds import common, structs
from . import PropSpec


class C12Combine(Scenario):
    prop = "C12"
    max_steps = 40

    def gen_config(self, rng):
        kind = rng.choice(("bloom", "bloom", "counting", "cms"))
        if kind == "cms":
            cfg = structs.SketchSubject.gen_cfg(rng)
            cfg["cls"] = rng.choice(("CountMinSketch", "CountMeanSketch", "CountMeanMinSketch"))
            if cfg["cls"] == "CountMeanMinSketch" and cfg["sizing"].get("width") == 1:
                cfg["sizing"]["width"] = 2
        else:
            cfg = structs.BloomSubject.gen_cfg(rng, small=True)
        cfg.update({"kind": kind, "a_disk": kind == "bloom" and rng.chance(1, 3), "b_disk": kind == "bloom" and rng.chance(1, 3),
                    "steps": rng.between(3, self.max_steps), "universe": rng.choice((4, 8, 16)),
                    # sketch cells are signed: removals beyond what was added are part of the reachable states
                    # (net totals of 0 or below with non-zero counters); only used for the counter/total clauses
                    "free_removes": kind == "cms" and rng.chance(1, 2),
                    # every structure gets its own function object computing the run's hash strategy (a factory that
                    # builds the strategy per filter); operands may be trivial user subclasses; a mismatched pair with
                    # strategy objects of its own lives and dies before the run's structures are built
                    "own_closures": rng.chance(1, 3), "subclass": rng.chance(1, 8), "recycle": rng.chance(1, 4),
                    # how operand b comes to its geometry: the same arguments as a / (sketches) explicit width and depth
                    # where a was sized by confidence and error rate / loaded from the export of a fresh twin
                    "b_via": rng.weighted([(3, "same"), (1, "width_depth"), (1, "loaded")])})
        return cfg

    def gen_step(self, rng):
        cfg = self.cfg
        if self.n_gen >= cfg["steps"]:
            return None
        self.n_gen += 1
        r = rng.below(100)
        side = rng.choice(("a", "b"))
        if cfg.get("free_removes") and r < 30:
            return {"op": "remove", "to": side, "k": rng.below(cfg["universe"]), "n": rng.weighted([(5, 1), (2, 2), (1, 11)]),
                    "free": True}
        if r < 70:
            return {"op": "add", "to": side, "k": rng.below(cfg["universe"]), "n": rng.weighted([(5, 1), (2, 2), (1, 11)])}
        if r < 85 and cfg["kind"] != "bloom":
            present = sorted(k for k, v in self.out[side].items() if v > 0)
            if present:
                k = rng.choice(present)
                return {"op": "remove", "to": side, "k": k, "n": rng.between(1, self.out[side][k])}
        if r < 90 and cfg["kind"] != "cms":
            # the element counter of a Bloom-family filter is caller-settable and, for results of set operations, only
            # an estimate (possibly 0 with cells set): the arrays must be combined regardless of it
            return {"op": "setcount", "to": side, "v": rng.choice((0, 0, 1, 5))}
        return {"op": "combine", "order": rng.choice(("ab", "ba")), "via_empty": rng.chance(1, 3)}

    def klass(self, name):
        import probables

        base = getattr(probables, name)
        if not self.cfg.get("subclass"):
            return base
        cache = self.__dict__.setdefault("_subs", {})
        if name not in cache:
            cache[name] = type("User" + name, (base,), {})
            self.ctx.fault("user_subclass")
        return cache[name]

    def make(self, disk=False, hf=None):
        cfg = self.cfg
        if hf is None:
            hf = self.env.fresh_hf() if cfg.get("own_closures") else self.env.hf
        if cfg["kind"] == "cms":
            return self.klass(cfg["cls"])(hash_function=hf, **cfg["sizing"])
        if cfg["kind"] == "counting":
            return self.klass("CountingBloomFilter")(cfg["est"], cfg["rate"], hash_function=hf)
        if disk:
            o = self.klass("BloomFilterOnDisk")(self.env.scr.abspath("a", self.env.fresh_name("blm")), cfg["est"],
                                                cfg["rate"], hash_function=hf)
            self.disk.append(o)
            return o
        return self.klass("BloomFilter")(cfg["est"], cfg["rate"], hash_function=hf)

    def other_way(self, fresh, how):
        """an operand equal to the fresh structure `fresh`, obtained another way"""
        hf = fresh.hash_function if hasattr(fresh, "hash_function") else self.env.hf
        C = type(fresh)
        if how == "loaded":
            self.ctx.fault("operand_loaded_from_export")
            return C.frombytes(bytes(fresh), hash_function=self.env.fresh_hf() if self.cfg.get("own_closures") else self.env.hf)
        if self.cfg["kind"] == "cms" and "width" not in self.cfg["sizing"]:
            self.ctx.fault("operand_sized_by_width_depth")
            return C(width=fresh.width, depth=fresh.depth,
                     hash_function=self.env.fresh_hf() if self.cfg.get("own_closures") else self.env.hf)
        return fresh

    def prior_life(self, h1, h2):
        """two structures of this geometry with two DIFFERENT strategies: their union is refused (Bloom kinds)."""
        d1, d2 = self.make(False, h1), self.make(False, h2)
        for k in range(3):
            d1.add(seams.key_of(k))
            d2.add(seams.key_of(k + 1))
        if self.cfg["kind"] != "cms":
            d1.union(d2)
            d2.union(d1)
            d1.jaccard_index(d2)

    def setup(self, cfg):
        self.cfg = cfg
        self.n_gen = 0
        self.env = structs.Env(self.ctx, cfg, need_fs=cfg["kind"] == "bloom")
        self.disk = []
        self.env.recycle(self.prior_life, n=2)
        if cfg.get("own_closures") and self.env.closures():
            self.ctx.fault("per_object_hash_closure")
        self.a = self.make(cfg["a_disk"])
        self.b = self.make(cfg["b_disk"])
        if cfg.get("b_via", "same") != "same" and not cfg["b_disk"]:
            self.b = self.other_way(self.b, cfg["b_via"])
        self.c = self.make(False)
        self.out = {"a": {}, "b": {}}
        self.overdrawn = False
        if cfg["a_disk"] or cfg["b_disk"]:
            self.ctx.fault("ondisk_operand")

    def teardown(self):
        for o in getattr(self, "disk", []):
            try:
                o.close()
            except Exception:
                pass
        gc.collect()
        if getattr(self, "env", None) is not None:
            self.env.cleanup()

    def array_of(self, o):
        kind = self.cfg["kind"]
        if kind == "cms":
            b = bytes(o)
            return b[:-16], struct.unpack("IIq", b[-16:])[2]
        if kind == "counting":
            return bytes(o.bloom), None
        if o.is_on_disk:
            return bytes(o)[:-20], None
        return bytes(o.bloom), None

    def apply(self, step):
        ctx = self.ctx
        cfg = self.cfg
        kind = cfg["kind"]
        op = step["op"]
        ctx.count("op." + op)
        if op in ("add", "remove"):
            tgt = self.a if step["to"] == "a" else self.b
            key = seams.key_of(step["k"])
            out = self.out[step["to"]]
            if op == "add":
                if kind == "bloom":
                    structs.api_add(tgt, key, step.get("alt"))
                    self.c.add(key)
                    out[step["k"]] = 1
                else:
                    structs.api_add(tgt, key, step.get("alt"), n=step["n"])
                    self.c.add(key, step["n"])
                    out[step["k"]] = out.get(step["k"], 0) + step["n"]
            else:
                if step.get("free") and kind == "cms" and cfg.get("free_removes"):
                    self.overdrawn = True
                    self.ctx.probe("over_removal")
                elif kind == "bloom" or out.get(step["k"], 0) < step["n"]:
                    return "skip"
                structs.api_remove(tgt, key, step["n"], step.get("alt"))
                self.c.remove(key, step["n"])
                out[step["k"]] = out.get(step["k"], 0) - step["n"]
            return {"r": "ok"}
        if op == "setcount":
            if kind == "cms":
                return "skip"
            tgt = self.a if step["to"] == "a" else self.b
            if getattr(tgt, "is_on_disk", False):
                return "skip"
            tgt.elements_added = step["v"]
            ctx.fault("counter_set")
            return {"r": "ok"}
        if op == "combine":
            return self.combine(step["order"], step.get("via_empty", False), step.get("alt") in ("kw", "altkw"))
        raise HarnessError(op)

    def finish(self):
        self.combine("ab")

    def unchanged(self, objs, snaps, what, sig):
        for name, o, snap in zip(("receiver", "argument"), objs, snaps):
            if (self.array_of(o), o.elements_added) != snap:
                raise Violation("operand_aliased", f"{what}: using the result afterwards changed the {name} "
                                                   f"({type(o).__name__})", sig)

    def combine(self, order, via_empty=False, kw=False):
        ctx = self.ctx
        kind = self.cfg["kind"]
        x, y = (self.a, self.b) if order == "ab" else (self.b, self.a)
        sig = {"kind": kind, "class": type(x).__name__, "arg_class": type(y).__name__}
        want, want_total = self.array_of(self.c)
        probes = [seams.key_of(k) for k in range(self.cfg["universe"] + 3)]
        snaps = [(self.array_of(o), o.elements_added) for o in (x, y)]
        if kind == "cms":
            if via_empty:
                # a fresh sketch takes both operands by join
                res = self.make(False)
                structs.set_op(res, "join", x, kw)
                structs.set_op(res, "join", y, kw)
                ctx.fault("join_into_fresh")
            else:
                res = copy.deepcopy(x)
                structs.set_op(res, "join", y, kw)
            got, total = self.array_of(res)
            if got != want:
                raise Violation("join_counters_differ", "counters of a.join(b) differ from the single-stream sketch", sig)
            if total != want_total or res.elements_added != self.c.elements_added:
                raise Violation("join_total_differs", f"elements_added after join {res.elements_added}, single-stream "
                                                      f"{self.c.elements_added}", sig)
            if self.cfg["cls"] == "CountMinSketch" and not self.overdrawn:
                for k in range(self.cfg["universe"]):
                    true = self.out["a"].get(k, 0) + self.out["b"].get(k, 0)
                    est = res.check(seams.key_of(k))
                    if est < true:
                        raise Violation("join_underestimates", f"key {k}: sum of true counts {true}, joined estimate {est}", sig)
        else:
            res = structs.set_op(x, "union", y, kw)
            if res is None:
                raise Violation("union_refused", "union of same-geometry, same-hash filters returned None", sig)
            got, _ = self.array_of(res)
            if got != want:
                d = [i for i in range(min(len(got), len(want))) if got[i] != want[i]][:5]
                raise Violation("union_array_differs", f"array of the union differs from the single-stream filter at bytes {d} "
                                                       f"({type(x).__name__}.union({type(y).__name__}))", sig)
            for key in probes:
                if (x.check(key) or y.check(key)) and not res.check(key):
                    raise Violation("union_lost_key", f"key {key!r} is reported by an operand but not by the union", sig)
        # the result is a structure of its own: using it must not reach back into the operands
        self.unchanged((x, y), snaps, "combine", sig)
        if kind == "bloom":
            res.add(probes[-1])
        else:
            res.add(probes[-1], 3)
            res.remove(probes[-1], 1)
        self.unchanged((x, y), snaps, "add/remove on the combined structure", sig)
        ctx.fault("combine")
        if any(v for v in self.out["a"].values()) and any(v for v in self.out["b"].values()):
            ctx.nontrivial = True
        if kind == "cms" and y.elements_added == 0 and any(bytes(y)[:-16]):
            ctx.probe("operand_total_zero_cells_nonzero")
        ctx.state(kind, order, len(self.out["a"]), len(self.out["b"]))
        return {"r": "ok"}

    def simplify_step(self, step):
        if step.get("n", 1) > 1:
            s = dict(step)
            s["n"] = 1
            yield s

    def simplify_config(self, cfg):
        for f in ("a_disk", "b_disk"):
            if cfg.get(f):
                c = dict(cfg)
                c[f] = False
                yield c
        if cfg["hash"] != "fnv":
            c = dict(cfg)
            c["hash"] = "fnv"
            yield c


SPEC = PropSpec(
    prop="C12",
    scenarios=[(1, C12Combine)],
    runs={"quick": 16000, "thorough": 400000},
    rule=("one run = two operands a, b and a third structure c of the same geometry and hash strategy (Bloom with "
          "in-memory or on-disk operands in either position, counting Bloom, count-min / mean / mean-min); two seeded "
          "streams of add (and legitimate remove) go to a and b, c receives both; at seeded points and at the end "
          "a.union(b) / b.union(a) / join (on a copy) must have exactly c's array (and element total for join), report "
          "every key an operand reports and never estimate below the sum of the true counts; afterwards the result is mutated "
          "and both operands must equal their snapshots.  Operands may carry function objects of their own for the shared "
          "strategy, be user subclasses, and follow a prior-life pair at the same addresses.  non-trivial = both streams "
          "non-empty at a combine; distinct = event-log digests"),
    state_measure="distinct (kind, order, keys in a, keys in b)",
    assumptions=["CPython 3.12", "unsaturated states only (amounts <= 11 per add)"],
    real_components=["BloomFilter, BloomFilterOnDisk (real files), CountingBloomFilter, CountMinSketch family; union / join"],
    stubbed_components=["hash_function (simulator strategies)"],
)
