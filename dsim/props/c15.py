"""C15 - cuckoo table invariants hold after every operation (and after loading an export)."""
from ..core import Violation
from ..worlds.cuckoo import CuckooWorld, cuckoo_export, cuckoo_load, own_fnv1a64
from . import PropSpec


class C15Cuckoo(CuckooWorld):
    prop = "C15"
    allow_restart = True

    def invariants(self, f, step, out, where):
        cfg = self.cfg
        cap = f.capacity
        sig = self.sig(step, out, where=where)
        if len(f.buckets) != cap:
            raise Violation("bucket_count", f"len(buckets)={len(f.buckets)} capacity={cap} {where}", sig)
        seen = {}
        for i, bucket in enumerate(f.buckets):
            if len(bucket) > f.bucket_size:
                raise Violation("bucket_overfull", f"bucket {i} holds {len(bucket)} > bucket_size {f.bucket_size} {where}",
                                sig)
            for b in bucket:
                fp = b.finger if self.counting else b
                if self.counting and b.count == 0:
                    raise Violation("zero_count_bin", f"bucket {i} fingerprint {fp} has count 0 {where}", sig)
                i1 = fp % cap
                h = self.hf(str(fp)) if self.hf is not None else own_fnv1a64(str(fp))
                i2 = h % cap
                if i not in (i1, i2):
                    raise Violation("misplaced_fingerprint",
                                    f"fingerprint {fp} sits in bucket {i}, its buckets are {i1},{i2} (capacity {cap}) "
                                    f"{where} decisions={out.get('dec')}", sig)
                if fp in seen:
                    raise Violation("duplicate_fingerprint",
                                    f"fingerprint {fp} stored in buckets {seen[fp]} and {i} {where} "
                                    f"decisions={out.get('dec')}", sig)
                seen[fp] = i
        if "cap0" in out and cap not in (out["cap0"], out["cap0"] * cfg["expansion_rate"]):
            raise Violation("capacity_jump", f"capacity {out['cap0']} -> {cap}, rate {cfg['expansion_rate']} {where}", sig)
        if f.bucket_size != cfg["bucket_size"]:
            raise Violation("bucket_size_changed", f"{cfg['bucket_size']} -> {f.bucket_size} {where}", sig)

    def judge(self, f, model, pre_model, step, out, branch):
        self.invariants(f, step, out, f"after {step['op']} ({out['r']}) branch={branch}")
        if out["r"] != "ok":
            self.adopt(f, model, step)

    def do_restart(self, step):
        chan = step["chan"]
        payload, path = cuckoo_export(self, self.f, chan)
        g = cuckoo_load(self, payload, path, chan)
        self.ctx.fault("restart_" + chan)
        self.ctx.nontrivial = True
        out = {"r": "ok", "cap0": self.f.capacity, "cap": g.capacity}
        if g.capacity != self.f.capacity:
            raise Violation("capacity_jump", f"capacity {self.f.capacity} -> {g.capacity} across export/load ({chan})",
                            self.sig(step, out, where="restart"))
        self.invariants(g, step, out, f"after load via {chan}")
        # the loaded table is exported once more while it stays in use: exporting must leave the exposed table as it is
        again = bytes(g)
        self.invariants(g, step, out, f"after exporting the table loaded via {chan}")
        if again != bytes(g):
            raise Violation("export_not_repeatable", "two consecutive exports of a loaded table differ",
                            self.sig(step, out, where="restart"))
        self.f = g
        self.adopt(self.f, self.model, {"op": "restart"})
        return {"r": "ok", "cap": g.capacity, "n": len(self.model)}


SPEC = PropSpec(
    prop="C15",
    scenarios=[(1, C15Cuckoo)],
    runs={"quick": 30000, "thorough": 1000000},
    rule=("world K histories (add/remove/expand/export+load, <=40 steps) with every eviction decision owned by the "
          "simulator and fan-out over alternative decision tapes; after every operation, every fan-out branch, every "
          "raised CuckooFilterFullError and every load the exposed bucket table is checked: bucket count = capacity, "
          "no bucket over bucket_size, every fingerprint in one of its two buckets (computed by the harness), no "
          "duplicate, no zero-count bin, capacity only x expansion_rate.  non-trivial = >=1 eviction decision, "
          "expansion or restart; distinct = distinct event-log digests"),
    state_measure="distinct bucket-table contents reached after an operation",
    assumptions=["CPython 3.12; probables from /repo working tree",
                 "alternate bucket recomputed by the harness as hash(str(fingerprint)) mod capacity with the hash it supplied"],
    real_components=["probables.cuckoo (both filters), export/load code paths, real file on tmpfs for the path channel"],
    stubbed_components=["`random` in both cuckoo modules -> SimRandom", "hash_function (keyed blake2b) in 2 of 3 runs",
                        "export sink SimFile for the file-object channel"],
)
