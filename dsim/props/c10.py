"""C10 - the rotating Bloom filter stays bounded and keeps the most recent insertions (thin)."""
from ..core import HarnessError, Scenario, Violation
from .. import seams
from ..worlds import common, structs
from . import PropSpec


class C10Rotating(Scenario):
    prop = "C10"
    max_steps = 70

    def gen_config(self, rng):
        cfg = structs.ExpandingSubject.gen_cfg(rng)
        cfg.update({"est": rng.between(1, 5), "mqs": rng.between(1, 4), "steps": rng.between(4, self.max_steps),
                    "explicit": rng.chance(1, 2), "universe": rng.choice((8, 16, 40, 80)), "neighbour": rng.chance(1, 5)})
        if rng.chance(1, 25):
            cfg.update({"est": rng.choice((257, 300)), "mqs": rng.between(1, 3), "universe": 1500, "rate": 0.05, "big": True,
                        "steps": rng.between(6, 14)})
        elif rng.chance(1, 40):
            # long queues: the bound must not depend on max_queue_size being small
            cfg.update({"est": rng.choice((1, 2)), "mqs": rng.choice((256, 257, 300)), "rate": rng.choice((0.2, 0.05)),
                        "wideq": True, "explicit": True, "steps": rng.between(4, 10), "universe": 1500})
        if common.geometry(cfg["est"], cfg["rate"]) is None:
            cfg["rate"] = 0.1
        return cfg

    def gen_step(self, rng):
        cfg = self.cfg
        if self.n_gen >= cfg["steps"]:
            return None
        self.n_gen += 1
        r = rng.below(100)
        if cfg.get("big") and r < 70:
            self.burst_at = getattr(self, "burst_at", 0) + 160
            return {"op": "burst", "k0": self.burst_at - 160, "cnt": rng.choice((100, 160))}
        if cfg.get("wideq") and r < 40:
            return {"op": "push", "cnt": rng.choice((255, 256, 257, 300, 40))}
        if cfg.get("wideq") and r < 70:
            self.burst_at = getattr(self, "burst_at", 0) + 320
            return {"op": "burst", "k0": self.burst_at - 320, "cnt": rng.choice((257, 300, 320))}
        if r < 84 or not cfg["explicit"]:
            return {"op": "add", "k": rng.below(cfg["universe"]), "force": rng.chance(1, 8)}
        if r < 92:
            return {"op": "push"}
        return {"op": "pop"}

    def setup(self, cfg):
        self.cfg = cfg
        self.n_gen = 0
        self.env = structs.Env(self.ctx, cfg, need_fs=False)
        self.sub = structs.RotatingSubject(self.env, cfg)
        self.o = self.sub.build()
        self.m, self.k = common.geometry(cfg["est"], cfg["rate"])
        self.since = {}  # key -> effective insertions since its own last effective insertion (guarantee still running)

    def apply(self, step):
        from probables.exceptions import RotatingBloomFilterError

        ctx = self.ctx
        o = self.o
        cfg = self.cfg
        est, mqs = cfg["est"], cfg["mqs"]
        op = step["op"]
        ctx.count("op." + op)
        sig = {"class": "RotatingBloomFilter", "op": op}
        if op == "burst":
            # many distinct keys one after the other (populations of a few hundred); the bookkeeping is per key
            for j in range(step["cnt"]):
                k = 100 + step["k0"] + j
                key = seams.key_of(k)
                was = o.check(key)
                o.add(key)
                if not was:
                    for kk in self.since:
                        self.since[kk] += 1
                    self.since[k] = 0
                    if not o.check(key):
                        raise Violation("absent_after_add", f"key {k} was absent, was added and is still absent", sig)
            window0 = (mqs - 1) * est
            self.since = {kk: n for kk, n in self.since.items() if n <= window0 + 5}
        elif op == "add":
            key = seams.key_of(step["k"])
            was = (key in o) if step.get("nb") else o.check(key)  # the two documented spellings of membership
            eff = step["force"] or not was
            q0 = o.current_queue_size
            structs.api_add(o, key, step.get("alt"), force=bool(step["force"]), hasher=self.sub.hasher,
                            buf=self.__dict__.setdefault("buf", []))
            if eff:
                for k in self.since:
                    self.since[k] += 1
                if not was:
                    self.since[step["k"]] = 0
                    if not o.check(key):
                        raise Violation("absent_after_add", f"key {step['k']} was absent, was added and is still absent", sig)
                if o.current_queue_size != q0 or q0 == mqs:
                    ctx.probe("rotation_possible")
        elif op == "push":
            for _ in range(step.get("cnt", 1)):
                o.push()
                if o.current_queue_size > mqs:
                    raise Violation("queue_unbounded", f"current_queue_size={o.current_queue_size}, max_queue_size={mqs} "
                                                       f"during {step}", sig)
            self.since = {}
            ctx.fault("explicit_push", step.get("cnt", 1))
        elif op == "pop":
            if o.current_queue_size == 1:
                before = bytes(o)
                try:
                    o.pop()
                except RotatingBloomFilterError:
                    pass
                else:
                    raise Violation("pop_not_refused", "pop on a single-filter queue did not raise", sig)
                if bytes(o) != before or o.current_queue_size != 1:
                    raise Violation("refused_pop_changed", "refused pop changed the filter", sig)
                ctx.probe("pop_refused")
            else:
                o.pop()
                self.since = {}
                ctx.fault("explicit_pop")
        else:
            raise HarnessError(op)
        q = o.current_queue_size
        if not 1 <= q <= mqs:
            raise Violation("queue_unbounded", f"current_queue_size={q}, max_queue_size={mqs} after {step}", sig)
        p = common.parse_expanding(bytes(o), self.m)
        if p is None:
            raise Violation("stream_malformed", "export does not parse by layout", sig)
        counts = p[0]
        if len(counts) != q:
            raise Violation("queue_unbounded", f"stream holds {len(counts)} filters, current_queue_size={q}", sig)
        if any(c > est for c in counts):
            raise Violation("filter_overfull", f"per-filter insertion counts {counts} exceed est_elements {est}", sig)
        window = (mqs - 1) * est
        for k, n in sorted(self.since.items()):
            if n <= window:
                if not o.check(seams.key_of(k)):
                    raise Violation("recent_key_lost", f"key {k} was inserted {n} effective insertions ago (guarantee "
                                                       f"{window} = ({mqs}-1)*{est}) and is reported absent after {step}", sig)
            else:
                ctx.probe("key_outside_window")
        self.since = {k: n for k, n in self.since.items() if n <= window}
        if q == mqs and mqs > 1:
            ctx.nontrivial = True
        ctx.state(q, counts[-1], est, mqs)
        return {"r": "ok", "q": q}

    def simplify_step(self, step):
        if step.get("cnt", 1) > 1:
            s = dict(step)
            s["cnt"] = step["cnt"] - 1
            yield s
        if step.get("force"):
            s = dict(step)
            s["force"] = False
            yield s


SPEC = PropSpec(
    prop="C10",
    scenarios=[(1, C10Rotating)],
    runs={"quick": 30000, "thorough": 700000},
    rule=("THIN (hash seam only; restarts excluded because the statement excludes them).  one run = a "
          "RotatingBloomFilter with est_elements 1..5, max_queue_size 1..4 (1 run in 25: est 257/300 with bursts; 1 in 40: "
          "queues of 256..300 filters with bulk pushes), <=70 steps of add (new/duplicate/forced), "
          "push and pop (incl. pop on a single-filter queue, which must be refused and change nothing); after every step "
          "1 <= queue <= max, per-filter counts (from the exported stream) <= est_elements, and every key whose "
          "insertion lies <= (max_queue_size-1)*est_elements effective insertions back with no explicit push/pop since "
          "is present.  non-trivial = the queue reached its limit (>1); distinct = event-log digests"),
    state_measure="distinct (queue size, fill of newest, est, max queue)",
    assumptions=["CPython 3.12", "an insertion is effective iff forced or check() said absent immediately before"],
    real_components=["RotatingBloomFilter and its BloomFilters; export"],
    stubbed_components=["hash_function (simulator strategies)"],
)
