"""C05 - export followed by load reproduces the structure on every channel."""
import os

from ..core import HarnessError, Scenario, Violation
from .. import seams
from ..worlds import structs
from ..worlds.cuckoo import CuckooWorld, cuckoo_export, cuckoo_load
from . import PropSpec

STYLES = ("abs", "rel", "path", "relpath", "dirlink", "home", "fspath")


class C05Struct(Scenario):
    prop = "C05"
    max_steps = 40

    def gen_config(self, rng):
        name = rng.choice(sorted(structs.ALL_SUBJECTS))
        cfg = structs.gen_cfg_for(name, rng)
        cfg.update({"subject": name, "saturate": rng.chance(1, 4), "negatives": rng.chance(1, 3),
                    "steps": rng.between(3, self.max_steps),
                    "fault_free": rng.chance(1, 6)})
        return cfg

    def gen_step(self, rng):
        if self.n_gen >= self.cfg["steps"]:
            return None
        self.n_gen += 1
        r = rng.below(100)
        ff = self.cfg["fault_free"]
        if r < 6 and self.cfg["subject"] in ("BloomFilter", "CountingBloomFilter") and not ff:
            # the result of a set operation (estimated element count, freshly built cell array) is a reachable state too
            return {"op": "derive", "which": rng.choice(("intersection", "union")),
                    "ks": [rng.below(self.cfg["universe"] + 3) for _ in range(rng.between(0, 5))]}
        if r < 68:
            return {"op": "mut", "m": self.sub.gen_op(rng)}
        if r < 94:
            chans = self.sub.channels
            st = {"op": "restart", "chan": rng.choice(chans), "dir": rng.choice(seams.Scratch.DIRS),
                  "style": rng.choice(STYLES), "stale": rng.chance(1, 3), "variant": rng.below(3),
                  "load_style": rng.choice(STYLES + ("link", "link")), "mmap": rng.chance(1, 4),
                  "cwd_gone": rng.chance(1, 8),
                  "chdir": rng.choice(seams.Scratch.DIRS) if rng.chance(1, 3) else None,
                  "reuse": rng.chance(1, 3), "frozen": rng.chance(1, 2), "probe_first": rng.chance(1, 4),
                  "sink": rng.weighted([(2, 0), (1, 1), (1, 2)])}
            if ff:
                st.update({"chan": "bytes" if "bytes" in chans else chans[0], "dir": "a", "style": "abs", "stale": False,
                           "chdir": None})
            return st
        if ff:
            return {"op": "mut", "m": self.sub.gen_op(rng)}
        return {"op": "chdir", "dir": rng.choice(seams.Scratch.DIRS)}

    def setup(self, cfg):
        self.cfg = cfg
        self.n_gen = 0
        self.env = structs.Env(self.ctx, cfg)
        self.sub = structs.ALL_SUBJECTS[cfg["subject"]](self.env, cfg)
        self.sub.build()

    def teardown(self):
        if getattr(self, "sub", None) is not None:
            self.sub.close()
        if getattr(self, "env", None) is not None:
            self.env.cleanup()

    def apply(self, step):
        ctx = self.ctx
        op = step["op"]
        ctx.count("op." + op)
        if op == "mut":
            try:
                r = self.sub.apply_op(step["m"])
            except Exception as e:  # a raising mutation is not this property's business; state stays as it is
                ctx.count("mutation_raised." + type(e).__name__)
                return {"r": "exc:" + type(e).__name__}
            return {"r": r if isinstance(r, (int, str)) or r is None else str(r)}
        if op == "derive":
            import probables

            sub = self.sub
            if sub.name not in ("BloomFilter", "CountingBloomFilter"):
                return "skip"
            C = getattr(probables, sub.name)
            sib = C(self.cfg["est"], self.cfg["rate"], hash_function=self.env.hf)
            for k in step["ks"]:
                sib.add(seams.key_of(k))
            res = getattr(sub.obj, step["which"])(sib)
            if res is None:
                return "skip"
            sub.obj = res
            sub.model = {}
            sub.cfg["saturated"] = True
            ctx.fault("derived_state")
            return {"r": "ok", "count": res.elements_added}
        if op == "chdir":
            self.env.scr.chdir(step["dir"])
            ctx.fault("cwd_change")
            return {"r": "ok"}
        if op == "restart":
            return self.restart(step)
        raise HarnessError(op)

    def restart(self, step):
        ctx = self.ctx
        sub = self.sub
        scr = self.env.scr
        chan = step["chan"]
        if chan not in sub.channels:
            return "skip"
        sig = {"class": sub.name, "chan": chan}
        obs0 = sub.observe()
        if obs0["count"] < 0:
            return "skip"  # a counter below zero cannot be packed by design; outside the statement
        # (a) all channels carry the same payload
        payloads = {}
        where = (step["dir"], self.env.fresh_name(sub.ext))
        prev = getattr(self, "prev_where", None)
        reuse = bool(step.get("reuse")) and prev is not None and not step["stale"] and "path" in sub.channels
        if reuse:
            # checkpointing: the destination still holds an EARLIER export of this object (usually the same size); with
            # the file clock frozen its timestamp cannot be told from that of anything written since
            where = prev
            ctx.fault("dest_holds_earlier_export")
            if step.get("frozen"):
                scr.clock.freeze()
                ctx.fault("clock_frozen")
        sub.sink_kind = step.get("sink", 0)
        probed = False
        if (step.get("probe_first") and chan == "path" and not reuse and not step["stale"]
                and sub.name not in ("RotatingBloomFilter", "BloomFilterOnDisk")
                and not os.path.lexists(scr.abspath(*where))):
            # the documented "from the file if it is there, else from these parameters" idiom, BEFORE the file exists:
            # the same spelling is loaded again once the export has been written
            sub.variant = 2
            try:
                sub.load(None, "path", where, step["style"])
            except Exception as e:
                raise Violation("load_failed", f"{sub.name}: constructor given sizing arguments and the path of a file "
                                               f"that does not exist yet raised {type(e).__name__}: {e}", sig)
            ctx.fault("loader_probed_before_file_exists")
            probed = True
        for c in sub.channels:
            if c == "path":
                if step["stale"]:
                    with open(scr.abspath(*where), "wb") as fh:
                        fh.write(b"\x5A" * 5000)
                    ctx.fault("stale_dest")
                ctx.fault("path_style_" + step["style"])
                payloads[c] = sub.export("path", where, step["style"])
            else:
                payloads[c] = sub.export(c)
        scr.clock.thaw()
        self.prev_where = where if "path" in sub.channels else None
        if sub.name != "BloomFilterOnDisk" and step.get("mmap"):
            try:
                payloads["mmap"] = sub.export("mmap")
            except Exception as e:
                raise Violation("export_failed", f"{sub.name}: export into a caller-provided mmap raised "
                                                 f"{type(e).__name__}: {e}", dict(sig, chan="mmap"))
            ctx.fault("export_mmap")
        ref_chan = "bytes" if "bytes" in payloads else sub.channels[0]
        ref = payloads[ref_chan]
        for c, p in payloads.items():
            want = sub.expected_hex(ref) if c == "hex" else ref
            if p != want:
                raise Violation("channels_differ", f"{sub.name}: payload of channel {c} differs from channel {ref_chan} "
                                                   f"({len(p)} vs {len(want)} units)", dict(sig, chan=c))
        # (b) load through the class's own loader
        if step["chdir"] is not None and chan == "path":
            scr.chdir(step["chdir"])
            ctx.fault("cwd_change")
        sub.variant = step.get("variant", 0)
        load_style = step.get("load_style", step["style"]) if sub.name != "BloomFilterOnDisk" else step["style"]
        if probed:
            load_style = step["style"]
        if load_style == "link":
            ctx.fault("path_style_link")
        if sub.variant and chan in ("bytes", "fileobj"):
            ctx.fault("byteslike_" + ("bytearray", "memoryview")[sub.variant - 1])
        gone = None
        if step.get("cwd_gone") and chan == "path" and load_style in ("abs", "path", "fspath") and sub.name != "BloomFilterOnDisk":
            # the process's working directory has been deleted: absolute paths must keep working
            gone = os.path.join(scr.root, "gone")
            os.mkdir(gone)
            spelled_abs = scr.spell(where[0], where[1], load_style)
            os.chdir(gone)
            os.rmdir(gone)
            ctx.fault("cwd_deleted")
        try:
            if gone is not None:
                class _W:  # load() spells the path itself; give it the spelling made before the cwd vanished
                    pass
                orig_spell = scr.spell
                scr.spell = lambda d, n, st: spelled_abs
                try:
                    g = sub.load(payloads[chan], chan, where, load_style)
                finally:
                    scr.spell = orig_spell
                    os.chdir(scr.dir(scr.cwd))
            else:
                g = sub.load(payloads[chan], chan, where, load_style)
        except Exception as e:
            raise Violation("load_failed", f"{sub.name}: loading its own export over {chan} raised "
                                           f"{type(e).__name__}: {e}", sig)
        ctx.fault("restart_" + chan)
        ctx.nontrivial = True
        try:
            obs1 = sub.observe(g)
            for part in ("geom", "count", "answers", "contains"):
                if obs0.get(part) != obs1.get(part):
                    kind = {"geom": "geometry_differs", "count": "count_differs"}.get(part, "answers_differ")
                    raise Violation(kind, f"{sub.name} over {chan}: {part} before {obs0.get(part)} after load "
                                          f"{obs1.get(part)}", sig)
            # (c) exports again to exactly the same bytes
            again = bytes(g)
            if again != ref:
                raise Violation("reexport_differs", f"{sub.name} over {chan}: re-export of the loaded object differs "
                                                    f"({len(again)} vs {len(ref)} bytes)", sig)
        except Violation:
            raise
        except Exception as e:
            raise Violation("loaded_unusable", f"{sub.name} over {chan}: using the loaded object raised "
                                               f"{type(e).__name__}: {e}", sig)
        if sub.name == "BloomFilterOnDisk" and chan == "bytes":
            return {"r": "ok", "kept": True}
        old = sub.obj
        sub.obj = g
        if hasattr(old, "close") and sub.name == "BloomFilterOnDisk":
            old.close()
            if chan == "path":
                self.prev_where = None  # that file is the live backing file now, not an earlier export
        ctx.state(sub.name, chan, step["style"])
        return {"r": "ok", "n": obs0["count"]}

    def simplify_step(self, step):
        if step["op"] == "restart":
            for k, v in (("stale", False), ("chdir", None), ("style", "abs"), ("dir", "a")):
                if step.get(k) != v:
                    s = dict(step)
                    s[k] = v
                    yield s
        if step["op"] == "mut" and step["m"].get("n", 1) > 1:
            s = dict(step)
            s["m"] = dict(step["m"], n=1)
            yield s

    def simplify_config(self, cfg):
        if cfg["hash"] != "fnv":
            c = dict(cfg)
            c["hash"] = "fnv"
            yield c


class C05Cuckoo(CuckooWorld):
    prop = "C05"
    allow_restart = True
    allow_huge = True

    def gen_step(self, rng):
        st = super().gen_step(rng)
        if st is not None and st["op"] in ("remove", "expand") and rng.chance(1, 3):
            return {"op": "restart", "chan": rng.choice(("bytes", "path", "fileobj"))}
        return st

    def judge(self, f, model, pre_model, step, out, branch):
        if out["r"] != "ok":
            self.adopt(f, model, step)

    def observe(self, f):
        u = list(range(self.cfg["universe"])) + [1000, 1001, 1002]
        return {
            "geom": [f.capacity, f.bucket_size, f.max_swaps, f.fingerprint_size, f.fingerprint_size_bits, f.expansion_rate,
                     f.auto_expand] + ([repr(f.error_rate)] if self.cfg.get("error_rate") else []),
            "count": [f.elements_added] + ([f.unique_elements] if self.counting else []),
            "answers": [int(f.check(seams.key_of(k))) for k in u],
        }

    def do_restart(self, step):
        chan = step["chan"]
        ctx = self.ctx
        f = self.f
        zero = any(fp == 0 for fp in self.table_fps())
        sig = {"class": self.cls.__name__, "chan": chan, "fingerprint_zero": zero}
        obs0 = self.observe(f)
        payloads = {c: cuckoo_export(self, f, c) for c in ("bytes", "path", "fileobj")}
        for c in ("mmap", "fspath"):  # further documented export targets: a caller's mmap, any os.PathLike
            try:
                payloads[c] = cuckoo_export(self, f, c)
            except Exception as e:
                raise Violation("export_failed", f"{self.cls.__name__}: export to {c} raised {type(e).__name__}: {e}",
                                dict(sig, chan=c))
        ref = payloads["bytes"][0]
        for c, (p, _) in payloads.items():
            if p != ref:
                raise Violation("channels_differ", f"{self.cls.__name__}: channel {c} differs from bytes", dict(sig, chan=c))
        try:
            g = cuckoo_load(self, payloads[chan][0], payloads[chan][1], chan)
        except Exception as e:
            raise Violation("load_failed", f"{self.cls.__name__}: loading its own export over {chan} raised "
                                           f"{type(e).__name__}: {e}", sig)
        ctx.fault("restart_" + chan)
        ctx.nontrivial = True
        obs1 = self.observe(g)
        for part in ("geom", "count", "answers"):
            if obs0[part] != obs1[part]:
                kind = {"geom": "geometry_differs", "count": "count_differs"}.get(part, "answers_differ")
                raise Violation(kind, f"{self.cls.__name__} over {chan}: {part} before {obs0[part]} after load "
                                      f"{obs1[part]} (table holds fingerprint 0: {zero})", sig)
        if bytes(g) != ref:
            raise Violation("reexport_differs", f"{self.cls.__name__} over {chan}: re-export differs", sig)
        self.f = g
        return {"r": "ok", "n": obs0["count"]}


SPEC = PropSpec(
    prop="C05",
    scenarios=[(5, C05Struct), (2, C05Cuckoo)],
    runs={"quick": 30000, "thorough": 800000},
    rule=("one run = one of the 12 exportable classes in a seeded configuration, a mutation history reaching grown / "
          "rotated / evicted / expanded / removed-from / saturated states, and restart faults at seeded points: the "
          "structure is exported over EVERY channel it offers (bytes, path in 4 spellings onto fresh or stale "
          "destinations, file object, hex), payloads are compared, one channel is loaded through the class's own "
          "loader (after an optional chdir), the loaded object must give the same geometry, counters and answers on a "
          "probe set of members and non-members and re-export to the same bytes, and then replaces the structure. "
          "non-trivial = at least one restart fired; distinct = distinct event-log digests"),
    state_measure="distinct (class, channel, path spelling) restart kinds (structs) / bucket tables (cuckoo)",
    assumptions=["CPython 3.12", "attributes the format does not store are re-supplied (hash, fingerprint width, "
                 "expansion settings, queue limit, hitters/threshold); the expanding filter's rate is compared as float32"],
    real_components=["all twelve exportable classes, their export()/bytes()/export_hex() and loaders, utilities.MMap, "
                     "real files on tmpfs, real cwd"],
    stubbed_components=["hash_function (simulator strategies)", "`random` in cuckoo modules -> SimRandom",
                        "file-object sink -> SimFile"],
)
