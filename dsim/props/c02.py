"""C02 - count-min estimate is never below the true count nor above the total (thin: hash seam only)."""
from ..core import HarnessError, Scenario, Violation
from .. import seams
from ..worlds import common, structs
from . import PropSpec

SUBJECTS = ("CountMinSketch", "CountMinSketch", "HeavyHitters", "StreamThreshold")


def _salt(key):
    return key + "#s" if isinstance(key, str) else bytes(key) + b"#s"


class C02Sketch(Scenario):
    prop = "C02"
    max_steps = 50

    def gen_config(self, rng):
        cfg = structs.SketchSubject.gen_cfg(rng)
        cfg.update({"subject": rng.choice(SUBJECTS), "steps": rng.between(4, self.max_steps), "big": rng.chance(1, 3),
                    # half of the runs stay plain add/remove histories (the fault-free configuration)
                    "extras": rng.chance(1, 2)})
        cfg["neighbour"] = cfg["extras"] and rng.chance(1, 3)
        # a user subclass whose public hashes() salts every key before handing it on (plain CountMinSketch only)
        cfg["salted"] = cfg["subject"] == "CountMinSketch" and rng.chance(1, 8)
        return cfg

    def gen_step(self, rng):
        if self.n_gen >= self.cfg["steps"]:
            return None
        self.n_gen += 1
        if self.cfg.get("extras") and rng.chance(1, 8):
            # a fresh sketch takes this one's counts by join() and is then used on its own: two live objects
            return {"op": "lend", "k": rng.below(self.cfg["universe"]), "n": rng.choice((1, 3, 1000)),
                    "rm": rng.chance(1, 2)}
        if self.cfg.get("extras") and rng.chance(1, 8):
            # leave the default query mode and come back to it by one of the documented spellings
            return {"op": "qmode", "via": rng.choice(("mean", "mean-min")), "back": rng.choice((None, None, "min", "MIN", "default"))}
        if rng.chance(1, 10):
            return {"op": "peek", "k": rng.below(self.cfg["universe"]), "depth": rng.choice((1, 1, 2, 3))}
        if self.cfg.get("big") and rng.chance(1, 4):
            # large amounts, still inside the statement's domain (totals below 2^31-1)
            return {"op": "add", "k": rng.below(self.cfg["universe"]),
                    "n": rng.choice((2**28, 2**29, 2**30, 700_000_000, 800_000_000, 2**30 - 1, 5_000_000))}
        if self.cfg.get("big") and rng.chance(1, 6):
            live = sorted(k for k, v in self.sub.model.items() if v > 1000)
            if live:
                k = rng.choice(live)
                return {"op": "remove", "k": k, "n": rng.choice((self.sub.model[k], self.sub.model[k] // 2, 1))}
        return self.sub.gen_op(rng)

    def setup(self, cfg):
        self.cfg = cfg
        self.n_gen = 0
        self.env = structs.Env(self.ctx, cfg, need_fs=False)
        self.sub = structs.ALL_SUBJECTS[cfg["subject"]](self.env, cfg)
        if cfg.get("salted"):
            base = self.sub.cls()

            class Salted(base):
                def hashes(self, key, depth=None):
                    return super().hashes(_salt(key), depth)

            self.sub.cls = lambda: Salted
            self.ctx.fault("subclass_overrides_hashes")
        self.o = self.sub.build()
        self.w, self.d = self.o.width, self.o.depth
        self.ever = set()
        self.bins = {}

    def bins_of(self, k):
        b = self.bins.get(k)
        if b is None:
            key = self.sub.key(k)
            hs = common.hashes_of(self.env.hf, _salt(key) if self.cfg.get("salted") else key, self.d)
            b = [hs[i] % self.w for i in range(self.d)]
            self.bins[k] = b
        return b

    def apply(self, step):
        ctx = self.ctx
        sub = self.sub
        op = step["op"]
        ctx.count("op." + op)
        sig = {"class": sub.name, "op": op}
        if op == "peek":
            # a read-only call: the first `depth` hashes of a key, possibly fewer than the sketch uses
            hs = self.o.hashes(sub.key(step["k"]), step["depth"])
            if len(hs) != step["depth"]:
                raise Violation("hashes_wrong_length", f"hashes(key, {step['depth']}) returned {len(hs)} values", sig)
            step = {"op": "add", "k": step["k"], "n": 1, "alt": step.get("alt", False)}  # ... followed by an add of it
            op = "add"
        if op == "add" and sub.total + step["n"] >= 2**31 - 1:
            return "skip"
        o = self.o
        r = None
        if op == "lend":
            from probables import CountMinSketch

            if sub.total + step["n"] >= 2**31 - 1:
                return "skip"
            # (a subject that salts its keys in hashes() is only compatible with its own kind)
            C2 = sub.cls() if self.cfg.get("salted") else CountMinSketch
            other = C2(width=self.w, depth=self.d, hash_function=self.env.fresh_hf())
            other.join(o)
            other.add(sub.key(step["k"]), step["n"])
            if step.get("rm"):
                live = sorted(k for k, v in sub.model.items() if v > 0)
                if live:
                    other.remove(sub.key(live[0]), sub.model[live[0]])
            ctx.fault("second_live_object")
            self.lent = other  # stays alive until the next lend
        elif op == "qmode":
            o.query_type = step["via"]
            if self.w > 1:  # the mean-min query divides by width-1; width 1 is outside every statement
                o.check(sub.key(0))
            o.query_type = step["back"]
            if o.query_type != "min":
                raise Violation("query_mode_not_reset", f"query_type = {step['back']!r} left the sketch in mode "
                                                        f"{o.query_type!r}", sig)
            ctx.fault("query_mode_round_trip")
        else:
            r = sub.apply_op(step)
            if r == "skip":
                return "skip"
            if op == "add":
                self.ever.add(step["k"])
            k0 = step["k"]
            now = o.check(sub.key(k0))
            if r != now:
                raise Violation("return_differs_from_check", f"{sub.name}.{op} returned {r}, check right afterwards says "
                                                             f"{now}", sig)
        total = sub.total
        if o.elements_added != total:
            ctx.count("elements_added_off")  # C14's business, only counted here
        shared_any = False
        for k in sub.probe_keys():
            true = sub.model.get(k, 0)
            est = o.check(sub.key(k))
            if est < true:
                raise Violation("underestimate", f"{sub.name}: key {k} true count {true}, estimate {est} after {step}", sig)
            if est > total:
                raise Violation("above_total", f"{sub.name}: key {k} estimate {est} exceeds the total {total} after {step}",
                                sig)
            mine = self.bins_of(k)
            shares = any(self.bins_of(j)[i] == mine[i] for j in self.ever if j != k for i in range(self.d))
            if not shares:
                if est != true:
                    raise Violation("isolated_key_inexact", f"{sub.name}: key {k} shares no counter with any other key, "
                                                            f"true {true}, estimate {est}", sig)
            else:
                shared_any = True
        if shared_any:
            ctx.nontrivial = True
            ctx.fault("hash_collide")
        ctx.state(self.w, self.d, len(self.ever), shared_any)
        return {"r": r, "total": total}

    def simplify_step(self, step):
        if step.get("n", 1) > 1:
            s = dict(step)
            s["n"] = 1
            yield s


SPEC = PropSpec(
    prop="C02",
    scenarios=[(1, C02Sketch)],
    runs={"quick": 20000, "thorough": 500000},
    rule=("THIN (no fault or schedule to inject; the simulator owns only the hash strategy).  one run = a min-mode "
          "sketch (CountMinSketch, HeavyHitters, StreamThreshold) of width {1,2,3,5,8,50} x depth 1..5 or "
          "confidence/error sizing, one of 7 hash strategies incl. a range-squeezed one that makes rows collide, and "
          "<=50 add(key,n)/legitimate remove(key,n) steps (in half of the runs also: a fresh sketch takes the subject by join "
          "and is updated on its own; query mode set to mean / mean-min and back); after every step for every universe key: true <= check <= "
          "total, the op's return value equals check, and a key sharing no counter (positions recomputed by the "
          "harness) is exact.  non-trivial = at least two keys shared a counter; distinct = event-log digests"),
    state_measure="distinct (width, depth, keys ever added, collision present) tuples",
    assumptions=["CPython 3.12", "reference model: Counter of true counts; counter positions recomputed from the supplied hash"],
    real_components=["CountMinSketch, HeavyHitters, StreamThreshold; shipped hash strategies and decorators"],
    stubbed_components=["hash_function for sim / sim_sq strategies"],
)
