"""C09 - the expanding Bloom filter grows exactly when its newest filter is full."""
from ..core import HarnessError, Scenario, Violation
from .. import seams
from ..worlds import common, structs
from . import PropSpec


class C09Expanding(Scenario):
    prop = "C09"
    max_steps = 60

    def gen_config(self, rng):
        cfg = structs.ExpandingSubject.gen_cfg(rng)
        cfg.update({"steps": rng.between(4, self.max_steps), "pushes": rng.chance(1, 2), "restarts": rng.chance(2, 3),
                    "universe": rng.choice((6, 12, 30, 60)), "neighbour": rng.chance(1, 5)})
        if rng.chance(1, 40):
            # large capacities: the growth rule must not depend on est_elements being small (int identity holds up to
            # 256; percentages rounded to one decimal reach 100.0 early from 2000 on)
            cfg.update({"est": rng.choice((256, 257, 300, 1000, 2000, 2500, 5000)), "rate": rng.choice((0.05, 0.2)),
                        "big": True, "steps": rng.between(3, 8), "pushes": False})
        return cfg

    def gen_step(self, rng):
        cfg = self.cfg
        if self.n_gen >= cfg["steps"]:
            return None
        self.n_gen += 1
        r = rng.below(100)
        if cfg.get("big") and r < 60:
            est = cfg["est"]
            return {"op": "fill", "n": rng.choice((est - 1, est, est + 1, 1, 2, est // 2))}
        if r < 80:
            return {"op": "add", "k": rng.below(cfg["universe"]), "force": rng.chance(1, 8)}
        if r < 88 and cfg["pushes"]:
            return {"op": "push"}
        if r < 97 and cfg["restarts"]:
            return {"op": "restart", "chan": rng.choice(("bytes", "path", "fileobj")), "dir": rng.choice(seams.Scratch.DIRS),
                    "style": rng.choice(("abs", "rel", "path", "relpath"))}
        return {"op": "add", "k": rng.below(cfg["universe"]), "force": False}

    def setup(self, cfg):
        self.cfg = cfg
        self.n_gen = 0
        self.env = structs.Env(self.ctx, cfg)
        self.sub = structs.ExpandingSubject(self.env, cfg)
        self.o = self.sub.build()
        self.m, self.k = common.geometry(cfg["est"], cfg["rate"])
        self.calls = 0
        self.effective = 0
        self.pushed = False
        self.counts = [0]

    def teardown(self):
        if getattr(self, "env", None) is not None:
            self.env.cleanup()

    def stream(self, sig):
        p = common.parse_expanding(bytes(self.o), self.m)
        if p is None:
            raise Violation("stream_malformed", "the exported stream does not parse by the documented layout", sig)
        return p

    def apply(self, step):
        ctx = self.ctx
        o = self.o
        est = self.cfg["est"]
        op = step["op"]
        ctx.count("op." + op)
        sig = {"class": "ExpandingBloomFilter", "op": op}
        before_counts, before_arrays, _ = self.stream(sig)
        if op == "add":
            key = seams.key_of(step["k"])
            was_present = o.check(key)
            eff = step["force"] or not was_present
            structs.api_add(o, key, step.get("alt"), force=bool(step["force"]), hasher=self.sub.hasher,
                            buf=self.__dict__.setdefault("buf", []))
            self.calls += 1
            counts, arrays, foot = self.stream(sig)
            if eff:
                self.effective += 1
                newest_full = before_counts[-1] >= est
                grew = len(counts) - len(before_counts)
                if newest_full and grew != 1:
                    raise Violation("no_growth_when_full", f"effective insertion found the newest filter holding "
                                                           f"{before_counts[-1]}/{est}; filters {len(before_counts)} -> "
                                                           f"{len(counts)}", sig)
                if not newest_full and grew != 0:
                    raise Violation("early_growth", f"grew with the newest filter holding {before_counts[-1]}/{est}", sig)
                if grew:
                    ctx.fault("growth")
                    ctx.nontrivial = True
                want = before_counts + [0] * grew
                want[-1] += 1
                if counts != want:
                    raise Violation("insertion_misplaced", f"per-filter counts {before_counts} -> {counts}, expected {want}",
                                    sig)
            else:
                ctx.probe("duplicate_add")
                if counts != before_counts or arrays != before_arrays:
                    raise Violation("duplicate_inserted", f"add of a key already reported present changed the filters: "
                                                          f"{before_counts} -> {counts}", sig)
        elif op == "fill":
            # n forced (hence effective) insertions of fresh keys in one go; the per-filter counts afterwards show
            # exactly where each growth happened
            want = list(before_counts)
            for i in range(step["n"]):
                o.add(f"fill-{self.calls}", force=True)
                self.calls += 1
                self.effective += 1
                if want[-1] >= est:
                    want.append(0)
                want[-1] += 1
            counts, arrays, foot = self.stream(sig)
            if len(want) > len(before_counts):
                ctx.fault("growth", len(want) - len(before_counts))
                ctx.nontrivial = True
            ctx.fault("bulk_fill")
            if counts != want:
                kind = "no_growth_when_full" if len(counts) < len(want) else "early_growth" if len(counts) > len(want) \
                    else "insertion_misplaced"
                raise Violation(kind, f"{step['n']} effective insertions, est_elements {est}: per-filter counts "
                                      f"{before_counts} -> {counts}, expected {want}", sig)
        elif op == "push":
            o.push()
            self.pushed = True
            ctx.fault("push")
        elif op == "restart":
            where = (step["dir"], self.env.fresh_name("ebf"))
            payload = self.sub.export(step["chan"], where, step["style"])
            self.o = self.sub.obj = self.sub.load(payload, step["chan"], where, step["style"])
            o = self.o
            ctx.fault("restart_" + step["chan"])
            ctx.nontrivial = True
        else:
            raise HarnessError(op)
        counts, arrays, foot = self.stream(sig)
        if any(c > est for c in counts):
            raise Violation("filter_overfull", f"per-filter insertion counts {counts} exceed est_elements {est} after {step}",
                            sig)
        if o.expansions != len(counts) - 1 or foot[0] != len(counts):
            raise Violation("expansions_wrong", f"expansions={o.expansions}, stream holds {len(counts)} filters", sig)
        if not self.pushed:
            want = max(0, -(-self.effective // est) - 1)
            if o.expansions != want:
                raise Violation("expansions_wrong", f"{self.effective} effective insertions, est_elements {est}: "
                                                    f"expansions={o.expansions}, expected {want}", sig)
        if o.elements_added != self.calls or foot[2] != self.calls:
            raise Violation("elements_added_wrong", f"{self.calls} add calls, elements_added={o.elements_added}, footer "
                                                    f"{foot[2]} after {step}", sig)
        ctx.state(len(counts), counts[-1], est)
        return {"r": "ok", "filters": len(counts)}

    def simplify_step(self, step):
        if step.get("force"):
            s = dict(step)
            s["force"] = False
            yield s
        if step["op"] == "fill" and step["n"] > 1:
            s = dict(step)
            s["n"] = step["n"] // 2
            yield s
            s = dict(step)
            s["n"] = step["n"] - 1
            yield s
        if step["op"] == "restart" and step["chan"] != "bytes":
            s = dict(step)
            s["chan"] = "bytes"
            yield s


SPEC = PropSpec(
    prop="C09",
    scenarios=[(1, C09Expanding)],
    runs={"quick": 30000, "thorough": 700000},
    rule=("one run = an ExpandingBloomFilter with est_elements 1..8 (1 run in 40: 256..5000 with bulk fills), a drawn rate and hash strategy, <=60 steps of add "
          "(new / duplicate / forced, classified by a check just before), push, and export+load over bytes / path / file "
          "object; per-filter insertion counts are read from the exported stream by layout after every step.  "
          "non-trivial = at least one growth or restart fired; distinct = event-log digests"),
    state_measure="distinct (number of filters, fill of the newest, est_elements)",
    assumptions=["CPython 3.12", "an insertion is 'effective' iff forced or check() said absent immediately before"],
    real_components=["ExpandingBloomFilter and the BloomFilters inside it; export / frombytes / filepath loaders"],
    stubbed_components=["hash_function (simulator strategies)", "file-object sink -> SimFile"],
)
