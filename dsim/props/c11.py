"""C11 - the on-disk Bloom filter's file is always a valid, current export.

World D: BloomFilterOnDisk on a real file in a tmpfs scratch tree R/{a,b,a/sub};
the simulator owns the cwd, the path spelling, the instant of process death
(every library line event of add/close/export/drop is a crash point; the image
is the file seen through a fresh descriptor) and handle release (close / drop).
Level: fault_enumeration - histories are sampled, the crash points inside every
add/close/export of a history are enumerated completely.
"""
import gc
import os
import signal

from ..core import Scenario, SimKill, Violation, HarnessError
from .. import seams
from ..worlds import common
from . import PropSpec

FNAME = "filter.blm"


class C11Disk(Scenario):
    prop = "C11"
    max_steps = 30

    # ------------------------------------------------------------------ generation
    def gen_config(self, rng):
        est, rate = common.draw_geometry(rng, est_choices=(1, 2, 3, 5, 8, 13, 40, 200), max_bits=4000)
        tier = os.environ.get("DSIM_TIER", "quick")
        big = rng.chance(1, 250)
        if big:
            # a bit array of more than 64 KiB (and more than 128 KiB): whatever the file is written with in blocks
            est, rate = rng.choice(((60000, 0.01), (56000, 0.01), (120000, 0.01)))
        cfg = {
            "est": est, "rate": rate,
            "hash": rng.weighted([(3, "fnv"), (1, "md5"), (1, "sha256"), (1, "dec_bytes"), (1, "dec_int"), (2, "sim"),
                                  (2, "sim_sq")]),
            "hseed": rng.below(1 << 16), "squeeze": rng.between(1, 3),
            "dir": rng.choice(seams.Scratch.DIRS), "cwd": rng.choice(seams.Scratch.DIRS),
            "style": rng.choice(("abs", "rel", "path", "relpath", "dirlink", "home", "dirlinkpath")),
            "universe": rng.choice((4, 8, 16, 40)),
            "fault_free": rng.chance(1, 6),
            "real_kill_every": 4 if tier == "thorough" else 25,
            # crash-point granularity: library source line, or (a share of the runs) single byte-code instruction
            "instr": rng.chance(1, 4) if tier == "thorough" else rng.chance(1, 30),
            "steps": rng.between(4, self.max_steps),
            # the path at which the filter is created may already hold an (older, longer) file
            "stale_create": rng.chance(1, 3),
        }
        if big:
            cfg.update({"big": True, "steps": rng.between(3, 6), "instr": False, "real_kill_every": 10**6})
        return cfg

    def gen_step(self, rng):
        cfg = self.cfg
        if self.n_gen >= cfg["steps"]:
            return None
        self.n_gen += 1
        ff = cfg["fault_free"]
        if self.f is None:  # handle closed
            r = rng.below(10)
            if r < 7 or ff:
                return {"op": "reopen", "style": rng.choice(("abs", "rel", "path", "relpath", "dirlink", "home", "dirlinkpath")) if not ff else "abs"}
            return {"op": "chdir", "dir": rng.choice(seams.Scratch.DIRS)}
        r = rng.below(100)
        k = rng.below(cfg["universe"])
        if ff:
            if r < 80:
                return {"op": "add", "k": k}
            return {"op": "close"}
        if r < 50:
            return {"op": "add", "k": k}
        if r < 60:
            return {"op": "add_kill", "k": k, "at": rng.between(1, self.last_add_lines + 3),
                    "real": rng.below(cfg["real_kill_every"]) == 0}
        if r < 70:
            return {"op": "close"}
        if r < 76:
            return {"op": "drop"}
        if r < 86:
            return {"op": "chdir", "dir": rng.choice(seams.Scratch.DIRS)}
        if r < 91:
            return {"op": "export", "dir": rng.choice(seams.Scratch.DIRS) if rng.chance(1, 2) else "b",
                    "style": rng.choice(("abs", "rel", "path", "relpath", "dirlink", "home", "dirlinkpath")),
                    "keep_dest": rng.chance(1, 2), "frozen": rng.chance(1, 2)}
        if r < 92:
            if rng.chance(1, 4):
                return {"op": "export_hardlink", "dir": rng.choice(seams.Scratch.DIRS)}
            return {"op": "export_self", "style": rng.choice(("abs", "rel", "path", "relpath", "dirlink", "home", "dirlinkpath"))}
        if r < 94:
            return {"op": "clear"} if rng.chance(1, 2) else {"op": "setcount", "v": rng.choice((0, 3, 1000))}
        if r < 96:
            # a second on-disk filter with the SAME file name in another directory, always spelled relative to its
            # own directory: the two backing files must not influence each other
            return {"op": "decoy", "dir": rng.choice(seams.Scratch.DIRS), "ks": [rng.below(cfg["universe"]) for _ in range(rng.between(0, 3))]}
        return {"op": "close_kill", "at": rng.between(1, 12)}

    # ------------------------------------------------------------------ world
    def setup(self, cfg):
        from probables import BloomFilterOnDisk

        import sys

        self.cfg = cfg
        self.n_gen = 0
        # handles of simulated-dead processes are finalised later by the GC; their __del__ may complain
        self._unraisable = sys.unraisablehook
        sys.unraisablehook = lambda *a, **k: None
        self.ls = seams.line_seam()
        self.ls.set_granularity("instr" if cfg.get("instr") else "line")
        self.ls.enable()
        if cfg.get("instr"):
            self.ctx.probe("instruction_level_run")
        self.scr = seams.Scratch(self.ctx.scratch)
        self.scr.chdir(cfg["cwd"])
        seams.SURROGATE_OK = cfg["hash"] == "fnv"
        self.hf = seams.make_list_hash(cfg["hash"], cfg["hseed"], cfg["squeeze"])
        self.m, self.k = common.geometry(cfg["est"], cfg["rate"])
        self.path = self.scr.abspath(cfg["dir"], FNAME)
        self.cls = BloomFilterOnDisk
        if cfg.get("stale_create"):
            with open(self.path, "wb") as fh:
                fh.write(b"\x77" * ((self.m + 7) // 8 + 20 + 13))
            self.ctx.fault("stale_backing_file")
        self.f = BloomFilterOnDisk(self.scr.spell(cfg["dir"], FNAME, cfg["style"]), cfg["est"], cfg["rate"],
                                   hash_function=self.hf)
        self.done = []  # key indices of completed additions (with repetitions)
        self.count = 0  # number of completed additions == expected recorded count
        self.twin = self.new_twin()
        self.last_add_lines = (8 + 4 * self.k) * (6 if cfg.get("instr") else 1)
        self.kills = 0
        self.count_unsynced = None
        self.check_after_return("create", None)
        if not cfg["fault_free"]:
            self.ctx.nontrivial = True

    def read_backing(self):
        try:
            return common.read_fresh(self.path)
        except FileNotFoundError:
            raise Violation("backing_file_missing", f"the filter's backing file {os.path.relpath(self.path, self.scr.root)} "
                                                    f"does not exist (cwd {self.scr.cwd!r})", {"phase": "any", "op": "any"})

    def new_twin(self, image=None):
        from probables import BloomFilter

        if image is not None:
            return BloomFilter.frombytes(image, hash_function=self.hf)
        return BloomFilter(self.cfg["est"], self.cfg["rate"], hash_function=self.hf)

    def teardown(self):
        try:
            if getattr(self, "f", None) is not None:
                try:
                    self.f.close()
                except Exception:
                    pass
                self.f = None
        finally:
            import sys

            seams.line_seam().disable()
            seams.line_seam().set_granularity("line")
            gc.collect()
            if getattr(self, "_unraisable", None) is not None:
                sys.unraisablehook = self._unraisable
            if getattr(self, "scr", None) is not None:
                self.scr.cleanup()

    def key_pos(self, k):
        key = seams.key_of(k)
        return common.positions(common.hashes_of(self.hf, key, self.k), self.k, self.m)

    # ------------------------------------------------------------------ image rules
    def judge_image(self, img, inflight, where, sig):
        """Rules 1-3 on one file image with self.count completed additions and possibly one in flight."""
        n = self.count
        explen = (self.m + 7) // 8 + 20
        if len(img) != explen:
            raise Violation("image_malformed", f"{where}: file length {len(img)}, a {self.m}-bit export is {explen}", sig)
        est, cnt, rate = common.bloom_footer(img)
        g = common.geometry(est, rate) if est >= 1 else None
        if g != (self.m, self.k) or est != self.cfg["est"]:
            raise Violation("image_malformed", f"{where}: footer (est={est}, rate={rate}) implies geometry {g}, "
                                               f"filter is {(self.m, self.k)}", sig)
        arr = img[:-20]
        for kk in self.done_set:
            for p in self.pos_cache[kk]:
                if not common.bit_set(arr, p):
                    raise Violation("image_lost_key", f"{where}: completed addition of key {kk} has bit {p} clear in the file",
                                    sig)
        stale = getattr(self, "count_unsynced", None)
        if stale is not None and cnt in (stale, stale + 1):
            pass  # the caller has just assigned elements_added; the file still shows the count before the assignment
        elif inflight is None:
            if cnt != n:
                raise Violation("image_count_wrong", f"{where}: recorded count {cnt}, completed additions {n}", sig)
        else:
            if cnt not in (n, n + 1):
                raise Violation("image_count_wrong", f"{where}: recorded count {cnt}, completed {n} (+1 in flight)", sig)
            full = all(common.bit_set(arr, p) for p in self.key_pos(inflight))
            if cnt == n + 1 and not full:
                raise Violation("count_leads_bits", f"{where}: recorded count {cnt} already includes the in-flight key "
                                                    f"{inflight} but its bits are not all in the file", sig)
            if cnt == n and full and inflight not in self.done_set:
                self.ctx.probe("bits_in_file_count_lagging")
            if cnt == n + 1:
                self.ctx.probe("count_in_file_before_return")
        return cnt

    def refresh_cache(self):
        self.done_set = sorted(set(self.done))
        self.pos_cache = {kk: self.key_pos(kk) for kk in self.done_set}

    def load_check(self, img, where, sig):
        """The image must load as an in-memory filter with the original geometry and report every completed key."""
        from probables import BloomFilter

        try:
            if self.ctx.counters.get("loads_via_path", 0) % 5 == 0:
                p = os.path.join(self.scr.root, "snapshot.copy")
                with open(p, "wb") as fh:
                    fh.write(img)
                g = BloomFilter(filepath=p, hash_function=self.hf)
            else:
                g = BloomFilter.frombytes(img, hash_function=self.hf)
            self.ctx.count("loads_via_path")
        except Exception as e:
            raise Violation("image_unloadable", f"{where}: BloomFilter cannot load the file: {type(e).__name__}: {e}", sig)
        if (g.number_bits, g.number_hashes, g.estimated_elements) != (self.m, self.k, self.cfg["est"]):
            raise Violation("image_malformed", f"{where}: loads with geometry "
                                               f"{(g.number_bits, g.number_hashes, g.estimated_elements)}", sig)
        for kk in self.done_set:
            if not g.check(seams.key_of(kk)):
                raise Violation("image_lost_key", f"{where}: loaded copy reports completed key {kk} absent", sig)
        return g

    def enumerate_crash_points(self, fn, phase, inflight, kill_at=None):
        """Run fn() with every library line event a crash point.  Returns (killed, image_at_kill)."""
        self.refresh_cache()
        images = []  # (event no, file:line, image) with consecutive duplicates merged
        path = self.path
        last = [None]

        def hook(i, code, line):
            img = self.read_backing()
            loc = f"{os.path.basename(code.co_filename)}:{line}" if line >= 0 else f"{os.path.basename(code.co_filename)}:{code.co_name}+{-line - 1}"
            self.ctx.state(phase, loc)
            if img != last[0]:
                images.append((i, loc, img))
                last[0] = img

        killed = False
        kill_img = None
        try:
            self.ls.run(fn, hook=hook, kill_at=kill_at)
        except SimKill:
            killed = True
            kill_img = self.read_backing()
        n_events = self.ls.n
        self.ctx.count("crash_points", n_events)
        self.ctx.fault("kill@line", n_events)
        self.ctx.count("crash_points_" + phase, n_events)
        sig = {"phase": phase, "op": phase}
        for i, loc, img in images:
            where = f"crash point {i} ({loc}) during {phase}"
            self.judge_image(img, inflight, where, sig)
            self.ctx.count("distinct_images_judged")
        if images:
            # full loader check on first and last distinct image of the operation
            self.load_check(images[0][2], f"crash point {images[0][0]} during {phase}", sig)
            if len(images) > 1:
                self.load_check(images[-1][2], f"crash point {images[-1][0]} during {phase}", sig)
        return killed, kill_img, n_events

    def check_after_return(self, phase, sig):
        if phase in ("add", "close", "export", "final close", "drop", "clear", "close after final reopen"):
            self.count_unsynced = None
        self.refresh_cache()
        img = self.read_backing()
        sig = sig or {"phase": phase, "op": phase}
        self.judge_image(img, None, f"after {phase} returned", sig)
        return img

    def check_closed_file(self, phase):
        img = self.check_after_return(phase, None)
        want = bytes(self.twin)
        if img != want:
            d = next((i for i in range(min(len(img), len(want))) if img[i] != want[i]), -1)
            raise Violation("closed_file_differs",
                            f"after {phase} the file differs from the export of an in-memory filter with the same "
                            f"history (first difference at byte {d} of {len(want)}; footer file="
                            f"{common.bloom_footer(img)} twin={common.bloom_footer(want)})", {"phase": phase, "op": phase})
        self.load_check(img, f"after {phase}", {"phase": phase, "op": phase})

    # ------------------------------------------------------------------ real kill cross-check
    def real_kill_image(self, fn, at):
        """Fork; the child really SIGKILLs itself just before its at-th library line event.
        Returns the file the dead child left behind; restores the file for the parent."""
        img0 = self.read_backing()
        pid = os.fork()
        if pid == 0:
            try:
                def hook(i, code, line):
                    if i == at:
                        os.kill(os.getpid(), signal.SIGKILL)

                self.ls.run(fn, hook=hook)
            finally:
                os._exit(0)
        os.waitpid(pid, 0)
        left = self.read_backing()
        fd = os.open(self.path, os.O_WRONLY)
        try:
            os.pwrite(fd, img0, 0)
        finally:
            os.close(fd)
        if self.read_backing() != img0:
            raise HarnessError("could not restore the backing file after the real-kill cross-check")
        return left

    # ------------------------------------------------------------------ apply
    def apply(self, step):
        ctx = self.ctx
        op = step["op"]
        ctx.count("op." + op)
        if op in ("add", "add_kill"):
            if self.f is None:
                return "skip"
            k = step["k"]
            key = seams.key_of(k)
            f = self.f
            fn = lambda: f.add(key)  # noqa: E731
            kill_at = step.get("at") if op == "add_kill" else None
            real_img = None
            if kill_at is not None and step.get("real"):
                real_img = self.real_kill_image(fn, kill_at)
            killed, kill_img, n = self.enumerate_crash_points(fn, "add", k, kill_at=kill_at)
            if not killed:
                self.last_add_lines = n
                self.done.append(k)
                self.count += 1
                self.twin.add(key)
                self.check_after_return("add", None)
                if real_img is not None and real_img != self.read_backing():
                    raise HarnessError("real-kill child (not killed) left a different file than the in-process run")
                return {"r": "ok", "lines": n, "count": self.count}
            # ---- simulated process death at line `at`, then restart from the crash image
            self.kills += 1
            ctx.fault("kill_restart")
            if real_img is not None:
                ctx.count("real_kill_compared")
                if real_img != kill_img:
                    raise HarnessError(f"in-process crash image differs from a real SIGKILL at line event {kill_at}")
                ctx.count("real_kill_agreed")
            self.restart_from_image(kill_img, inflight=k)
            return {"r": "killed", "at": kill_at, "count": self.count}
        if op == "close_kill":
            if self.f is None:
                return "skip"
            f = self.f
            killed, kill_img, n = self.enumerate_crash_points(f.close, "close", None, kill_at=step["at"])
            if not killed:
                self.f = None
                self.check_closed_file("close")
                return {"r": "ok", "lines": n}
            self.kills += 1
            ctx.fault("kill_restart")
            self.restart_from_image(kill_img, inflight=None)
            return {"r": "killed", "at": step["at"], "count": self.count}
        if op == "close":
            if self.f is None:
                return "skip"
            f = self.f
            _, _, n = self.enumerate_crash_points(f.close, "close", None)
            self.f = None
            ctx.fault("close_reopen")
            self.check_closed_file("close")
            return {"r": "ok", "lines": n}
        if op == "drop":
            if self.f is None:
                return "skip"

            def dropper():
                self.f = None
                gc.collect()

            _, _, n = self.enumerate_crash_points(dropper, "drop", None)
            ctx.fault("drop_handle")
            self.check_closed_file("drop")
            return {"r": "ok", "lines": n}
        if op == "chdir":
            self.scr.chdir(step["dir"])
            ctx.fault("cwd_change")
            return {"r": "ok"}
        if op == "decoy":
            return self.do_decoy(step)
        if op == "export_self":
            if self.f is None:
                return "skip"
            # documented: "Only exported if the filename is not the original filename" - whatever the spelling
            spelled = self.scr.spell(self.cfg["dir"], FNAME, step["style"])
            sig = {"phase": "export", "op": "export_self", "style": step["style"]}
            try:
                self.f.export(spelled)
            except Exception as e:
                raise Violation("export_failed", f"export({spelled!r}) - the filter's own file under another spelling - raised "
                                                 f"{type(e).__name__}: {e}", sig)
            ctx.fault("export_to_own_path")
            self.check_after_return("export", sig)
            return {"r": "ok"}
        if op == "export_hardlink":
            if self.f is None:
                return "skip"
            return self.do_export_hardlink(step)
        if op == "setcount":
            if self.f is None:
                return "skip"
            # elements_added is documented as settable; the file catches up at the next add / close / export, and the
            # in-memory twin gets the same assignment, so 'identical after close' still decides
            self.f.elements_added = step["v"]
            self.twin.elements_added = step["v"]
            if self.count_unsynced is None:
                self.count_unsynced = self.count  # what the file shows until the next add / close / export
            self.count = step["v"]
            ctx.fault("counter_set")
            return {"r": "ok"}
        if op == "clear":
            if self.f is None:
                return "skip"
            # the statement speaks about add/close, so crash points inside clear() are not judged; but everything
            # that follows (adds, closes, reopens) is judged against the cleared history
            self.f.clear()
            self.done = []
            self.count = 0
            self.twin = self.new_twin()
            ctx.fault("clear")
            self.check_after_return("clear", None)
            return {"r": "ok"}
        if op == "reopen":
            if self.f is not None:
                return "skip"
            return self.do_reopen(step["style"], "reopen")
        if op == "export":
            if self.f is None:
                return "skip"
            return self.do_export(step)
        raise HarnessError(op)

    def do_decoy(self, step):
        from probables import BloomFilter

        d = step["dir"]
        if d == self.cfg["dir"]:
            return "skip"
        before = self.read_backing()
        cwd0 = self.scr.cwd
        self.scr.chdir(d)
        sig = {"phase": "decoy", "op": "decoy"}
        try:
            g = self.cls(FNAME, self.cfg["est"], self.cfg["rate"], hash_function=self.hf)  # relative to ITS directory
            twin2 = BloomFilter(self.cfg["est"], self.cfg["rate"], hash_function=self.hf)
            for k in step["ks"]:
                g.add(seams.key_of(k))
                twin2.add(seams.key_of(k))
            g.close()
        finally:
            self.scr.chdir(cwd0)
        self.ctx.fault("second_filter_same_name")
        other = self.scr.abspath(d, FNAME)
        if not os.path.exists(other) or common.read_fresh(other) != bytes(twin2):
            raise Violation("decoy_file_wrong", f"a second filter created as {FNAME!r} from directory {d!r} did not end up as "
                                                f"its own valid file there", sig)
        if self.read_backing() != before:
            raise Violation("backing_file_clobbered", f"creating / filling another filter named {FNAME!r} in directory {d!r} "
                                                      f"changed this filter's backing file in {self.cfg['dir']!r}", sig)
        return {"r": "ok"}

    def restart_from_image(self, img, inflight):
        """The process is dead: drop the handle without letting it touch the file, restore the crash image,
        re-base the model on it, reopen (as a restarted process would, with an absolute path)."""
        f, self.f = self.f, None
        try:
            f.close()  # the dead process's handle may be half closed
        except BaseException:
            pass
        del f
        gc.collect()
        with open(self.path, "wb") as fh:
            fh.write(img)
        est, cnt, rate = common.bloom_footer(img)
        if inflight is not None and cnt == self.count + 1 and all(
                common.bit_set(img[:-20], p) for p in self.key_pos(inflight)):
            # rule 3 established that its bits are all there (re-checked here because after a caller-set counter the
            # stale count in the file can coincide with count + 1)
            self.done.append(inflight)
        self.count = cnt
        self.count_unsynced = None  # an assignment that had not reached the file died with the process
        self.twin = self.new_twin(img)
        self.refresh_cache()
        self.do_reopen("abs", "restart after kill")

    def do_reopen(self, style, phase):
        spelled = self.scr.spell(self.cfg["dir"], FNAME, style)
        sig = {"phase": "reopen", "op": "reopen", "cwd_is_file_dir": self.scr.cwd == self.cfg["dir"], "style": style}
        self.ctx.fault("path_style_" + style)
        try:
            self.f = self.cls(spelled, hash_function=self.hf)
        except Exception as e:
            raise Violation("reopen_failed", f"{phase}: BloomFilterOnDisk({spelled!r}) from cwd {self.scr.cwd!r} raised "
                                             f"{type(e).__name__}: {e}", sig)
        self.refresh_cache()
        f = self.f
        for kk in self.done_set:
            if not f.check(seams.key_of(kk)):
                raise Violation("reopen_lost_key", f"{phase}: reopened filter reports completed key {kk} absent", sig)
        if f.elements_added != self.count:
            raise Violation("reopen_count_wrong", f"{phase}: reopened filter has elements_added={f.elements_added}, "
                                                  f"the file records {self.count}", sig)
        if (f.number_bits, f.number_hashes) != (self.m, self.k):
            raise Violation("reopen_geometry", f"{phase}: geometry {(f.number_bits, f.number_hashes)}", sig)
        self.check_after_return("reopen", sig)
        return {"r": "ok", "count": self.count}

    def do_export(self, step):
        d, style = step["dir"], step["style"]
        name = "copy.blm"
        dest_abs = self.scr.abspath(d, name)
        spelled = self.scr.spell(d, name, style)
        if step.get("keep_dest") and os.path.exists(dest_abs):
            # the destination still holds an EARLIER export of this filter (same size, written moments ago)
            self.ctx.fault("dest_holds_earlier_export")
            if step.get("frozen"):
                # file clock frozen: the earlier export and the backing file carry the same size AND timestamp
                self.scr.clock.freeze()
                self.ctx.fault("clock_frozen")
        else:
            with open(dest_abs, "wb") as fh:  # stale destination: longer garbage
                fh.write(b"\xAA" * ((self.m + 7) // 8 + 57))
            self.ctx.fault("stale_dest")
        sig = {"phase": "export", "op": "export", "cwd_is_file_dir": self.scr.cwd == self.cfg["dir"], "style": style}
        f = self.f
        try:
            self.enumerate_crash_points(lambda: f.export(spelled), "export", None)
        except Violation:
            raise
        except Exception as e:
            raise Violation("export_failed", f"export({spelled!r}) from cwd {self.scr.cwd!r} raised "
                                             f"{type(e).__name__}: {e}", sig)
        finally:
            self.scr.clock.thaw()
        img = self.check_after_return("export", sig)
        got = common.read_fresh(dest_abs)
        if got != img:
            raise Violation("export_differs", f"export({spelled!r}) wrote {len(got)} bytes that differ from the "
                                              f"{len(img)}-byte backing file", sig)
        return {"r": "ok"}

    def do_export_hardlink(self, step):
        """export() onto another NAME of the backing file that no path arithmetic can unify: a hard link.  Whether the
        call raises or returns is not this property's business; the backing file must stay a well-formed, current
        export and the process must survive.  Runs in a forked child so that a fatal signal is an observation."""
        link = self.scr.abspath(step["dir"], "hardlink.blm")
        if os.path.lexists(link):
            os.unlink(link)
        os.link(self.path, link)
        self.ctx.fault("export_to_hard_link")
        sig = {"phase": "export", "op": "export_hardlink"}
        f = self.f
        pid = os.fork()
        if pid == 0:
            code = 0
            try:
                f.export(link)
            except BaseException:
                code = 3
            finally:
                os._exit(code)
        _, status = os.waitpid(pid, 0)
        try:
            if os.WIFSIGNALED(status):
                raise Violation("export_killed_process",
                                f"export() onto a hard link of the backing file ended the process with signal "
                                f"{os.WTERMSIG(status)}; the backing file now has {os.path.getsize(self.path)} bytes", sig)
            self.ctx.count("export_hardlink_" + ("returned" if os.WEXITSTATUS(status) == 0 else "raised"))
            self.check_after_return("export", sig)
        finally:
            os.unlink(link)
        return {"r": "ok"}

    def finish(self):
        # the history always ends with an orderly close and one more reopen/close cycle
        if self.f is not None:
            f = self.f
            self.enumerate_crash_points(f.close, "close", None)
            self.f = None
            self.check_closed_file("final close")
        self.do_reopen("abs", "final reopen")
        self.f.close()
        self.f = None
        self.check_closed_file("close after final reopen")

    def simplify_step(self, step):
        if step.get("real"):
            s = dict(step)
            s["real"] = False
            yield s
        if step["op"] == "add_kill":
            yield {"op": "add", "k": step["k"]}
            if step["at"] > 1:
                s = dict(step)
                s["at"] = step["at"] - 1
                yield s
        if "k" in step and step["k"] > 0:
            s = dict(step)
            s["k"] = 0
            yield s
        if step.get("style") not in (None, "abs"):
            s = dict(step)
            s["style"] = "abs"
            yield s

    def simplify_config(self, cfg):
        if cfg["hash"] != "fnv":
            c = dict(cfg)
            c["hash"] = "fnv"
            yield c
        for est, rate in ((1, 0.5), (2, 0.3), (5, 0.1)):
            if (est, rate) != (cfg["est"], cfg["rate"]) and est <= cfg["est"]:
                c = dict(cfg)
                c["est"], c["rate"] = est, rate
                yield c
        if cfg["style"] != "abs":
            c = dict(cfg)
            c["style"] = "abs"
            yield c
        if cfg["dir"] != "a" or cfg["cwd"] != "a":
            c = dict(cfg)
            c["dir"] = c["cwd"] = "a"
            yield c


SPEC = PropSpec(
    prop="C11",
    scenarios=[(1, C11Disk)],
    runs={"quick": 6000, "thorough": 200000},
    level="fault_enumeration",
    rule=("crash-point granularity is a library source line; a share of the runs (1 in 4 thorough, 1 in 30 quick) uses "
          "single byte-code instructions instead (sys.monitoring INSTRUCTION events).  "
          "histories (create, add, close, drop-without-close, reopen with 4 path spellings, export onto a stale "
          "destination, chdir among 3 directories, kill+restart) are sampled from the seed; inside every add / close / "
          "drop / export of a history EVERY library line event is a crash point: the file is read through a fresh "
          "descriptor and must be a well-formed export of the right geometry, contain every completed addition, and "
          "record n or n+1 (n+1 only if the in-flight key's bits are all there).  evaluations = simulated runs; "
          "non-trivial = run in a fault-injecting configuration (all but the 1-in-6 fault-free ones); distinct = "
          "distinct event-log digests.  coverage.crash_points counts the enumerated crash points"),
    state_measure="distinct (phase, library file:line) crash locations",
    assumptions=[
        "what survives a process kill = file content seen through a fresh descriptor (page cache incl. the shared "
        "mapping, NOT the user-space buffer of the count handle); cross-checked against real fork+SIGKILL on a seeded "
        "sample (coverage.other_counters.real_kill_agreed)",
        "power loss (only msync'ed pages survive), two live handles on one file and a crash during creation are outside "
        "the statement",
        "crash granularity is a library source line",
    ],
    real_components=["probables.blooms.BloomFilterOnDisk / BloomFilter", "real file + shared mmap + buffered r+b handle on tmpfs",
                     "real process cwd", "real fork+SIGKILL for the cross-check"],
    stubbed_components=["hash_function (simulator strategies in 7 of 11 runs)", "process death (in-process SimKill raised at a line event)"],
    chunk=10,
)


def _extra(agg):
    c = agg["counters"]
    return {"crash_points": c.get("crash_points", 0), "crash_images_judged": c.get("distinct_images_judged", 0),
            "traces_validated_against_impl": c.get("real_kill_agreed", 0)}


SPEC.extra_evidence = _extra
