"""One module per claimed property: scenarios (world + oracle) and its PropSpec."""


class PropSpec:
    def __init__(self, prop, scenarios, runs, rule, level="exploration", assumptions=None,
                 real_components=None, stubbed_components=None, state_measure="n/a", selftest=None,
                 wall_cap=None, chunk=25):
        self.prop = prop
        self.scenarios = scenarios  # [(weight, ScenarioClass)]
        self.runs = runs  # {"quick": n, "thorough": n}
        self.rule = rule
        self.level = level
        self.assumptions = assumptions or []
        self.real_components = real_components or []
        self.stubbed_components = stubbed_components or []
        self.state_measure = state_measure
        self.selftest = selftest or {"quick": 8, "thorough": 64}
        self.wall_cap = wall_cap or {"quick": 240, "thorough": 3000}
        self.chunk = chunk
