"""C03 - cuckoo filters lose no key through kicks, expansion or a failed insert."""
from ..core import Violation
from ..worlds.cuckoo import CuckooWorld
from . import PropSpec


class C03Cuckoo(CuckooWorld):
    prop = "C03"

    def _lost(self, f, fps):
        return [fp for fp in sorted(fps) if not self.present(f, fp)]

    def oracle_ok(self, f, model, pre_model, step, out, branch):
        lost = self._lost(f, model)
        if lost:
            raise Violation(
                "lost_key",
                f"after {step['op']} returned normally, fingerprints {lost[:5]} (keys "
                f"{[self.fp_key[x] for x in lost[:5]]}) are reported absent; decisions={out['dec']} "
                f"cap {out['cap0']}->{out['cap']} branch={branch}",
                self.sig(step, out),
            )

    def oracle_failed(self, f, model, pre_model, step, out, branch):
        # only the clause about a failing *add* is stated; anything else is indeterminate
        if step["op"] == "add" and out["r"] == "full":
            lost = self._lost(f, pre_model)
            if lost:
                raise Violation(
                    "lost_key_on_full",
                    f"add raised CuckooFilterFullError({out.get('msg')}) and fingerprints {lost[:5]} (keys "
                    f"{[self.fp_key[x] for x in lost[:5]]}) that were present before the call are now absent; "
                    f"decisions={out['dec']} cap {out['cap0']}->{out['cap']} branch={branch}",
                    self.sig(step, out),
                )
        else:
            self.ctx.count("indeterminate_op")


SPEC = PropSpec(
    prop="C03",
    scenarios=[(1, C03Cuckoo)],
    runs={"quick": 40000, "thorough": 1500000},
    rule=("one run = one seeded configuration (capacity, bucket size, max_swaps, fingerprint bytes, auto_expand, "
          "expansion rate, plain/counting, hash strategy) and a history of <=40 add/remove/expand calls; every "
          "random.choice/randint the library makes is answered by the simulator (strategy or explicit tape); "
          "kicking insertions are additionally re-executed from a deep-copied pre-state under up to 4 other tapes, and in "
          "1 run in 3 under EVERY tape (complete enumeration of the decision tree of that insertion, capped at 300 "
          "branches: other_counters.fan_all_complete / fan_all_ops); expansion rates 1, 2, 3; sizing by bytes or by error "
          "rate. "
          "non-trivial = at least one eviction decision or expansion actually happened; distinct = distinct "
          "event-log digests (ops, arguments, decisions consumed, outcomes)"),
    state_measure="distinct bucket-table contents reached after an operation",
    assumptions=[
        "CPython 3.12; probables imported from /repo working tree",
        "reference model: set / counter of fingerprints; fingerprint computed by the harness from the hash it supplied",
        "sampled schedules, not all: 'ALL resolutions' is approached by 4 strategies + fan-out, not exhausted",
    ],
    real_components=["probables.cuckoo.CuckooFilter", "probables.cuckoo.CountingCuckooFilter", "probables.hashes",
                     "probables.utilities"],
    stubbed_components=["module attribute `random` of probables.cuckoo.cuckoo and .countingcuckoo -> SimRandom",
                        "hash_function= (2 of 3 runs: keyed blake2b oracle; else library default)"],
)
