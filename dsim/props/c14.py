"""C14 - elements_added tracks the documented quantity through every operation."""
import math

from ..core import HarnessError, Scenario, Violation
from .. import seams
from ..worlds import common, structs
from ..worlds.cuckoo import CuckooWorld, cuckoo_export, cuckoo_load
from ..worlds.quotient import QuotientWorld
from . import PropSpec

STYLES = ("abs", "rel", "path", "relpath")


def expected_estimate(m, k, x):
    if x >= m:
        return -1, 0.0
    v = -1 * (float(m) / float(k)) * math.log(1 - (float(x) / float(m)))
    return int(v), v


def check_stats(o, counting, sig, what):
    """estimate_elements / current_false_positive_rate are the standard functions of X and n."""
    m, k, n = o.number_bits, o.number_hashes, o.elements_added
    if counting:
        x = sum(1 for c in o.bloom if c > 0)
    else:
        arr = bytes(o)[:-20] if o.is_on_disk else bytes(o.bloom)
        x = common.popcount_bytes(arr)
    want, v = expected_estimate(m, k, x)
    got = o.estimate_elements()
    if got != want and not (want >= 0 and abs(v - round(v)) < 1e-9 and abs(got - v) < 1):
        raise Violation("estimate_wrong", f"{what}: estimate_elements()={got}, -(m/k)ln(1-X/m) with m={m} k={k} X={x} is "
                                          f"{v!r}", sig)
    if n >= 0:
        wantp = math.pow(1 - math.exp(-k * n / m), k)
        gotp = o.current_false_positive_rate()
        if abs(gotp - wantp) > 1e-12 * max(wantp, 1e-300) and abs(gotp - wantp) > 1e-300:
            raise Violation("fpr_wrong", f"{what}: current_false_positive_rate()={gotp!r}, (1-e^(-kn/m))^k with n={n} is "
                                         f"{wantp!r}", sig)
    return got


class C14Struct(Scenario):
    prop = "C14"
    max_steps = 40

    def gen_config(self, rng):
        name = rng.choice(sorted(structs.ALL_SUBJECTS))
        cfg = structs.gen_cfg_for(name, rng)
        cfg.update({"subject": name, "steps": rng.between(3, self.max_steps)})
        return cfg

    def gen_step(self, rng):
        if self.n_gen >= self.cfg["steps"]:
            return None
        self.n_gen += 1
        r = rng.below(100)
        name = self.cfg["subject"]
        u = self.cfg["universe"]
        if r < 66:
            return {"op": "mut", "m": self.sub.gen_op(rng)}
        if r < 80:
            return {"op": "restart", "chan": rng.choice(self.sub.channels), "dir": rng.choice(seams.Scratch.DIRS),
                    "style": rng.choice(STYLES)}
        if r < 90:
            if name in structs.BLOOM_SUBJECTS:
                return {"op": "setop", "ks": [rng.below(u + 4) for _ in range(rng.between(0, 6))],
                        "which": rng.choice(("union", "intersection")), "self": rng.chance(1, 4)}
            if name in ("CountMinSketch", "CountMeanSketch", "CountMeanMinSketch"):
                return {"op": "join", "adds": [[rng.below(u), rng.between(1, 5)] for _ in range(rng.between(1, 4))]}
        if r < 95 and name == "BloomFilterOnDisk":
            return {"op": "reopen", "style": rng.choice(STYLES), "cwd": rng.choice(seams.Scratch.DIRS)}
        return {"op": "mut", "m": self.sub.gen_op(rng)}

    def setup(self, cfg):
        self.cfg = cfg
        self.n_gen = 0
        self.env = structs.Env(self.ctx, cfg)
        self.sub = structs.ALL_SUBJECTS[cfg["subject"]](self.env, cfg)
        self.sub.build()
        self.extra = []

    def teardown(self):
        for o in getattr(self, "extra", []):
            try:
                o.close()
            except Exception:
                pass
        if getattr(self, "sub", None) is not None:
            self.sub.close()
        if getattr(self, "env", None) is not None:
            self.env.cleanup()

    def expected(self):
        name = self.cfg["subject"]
        sub = self.sub
        if name == "CountingBloomFilter":
            return sum(sub.model.values())
        if name in structs.SKETCH_SUBJECTS:
            return sub.total
        return sub.total_adds

    def apply(self, step):
        ctx = self.ctx
        sub = self.sub
        name = self.cfg["subject"]
        op = step["op"]
        ctx.count("op." + op)
        sig = {"class": name, "op": op}
        if op == "mut":
            m = step["m"]
            if m["op"] == "add" and m.get("n", 1) > 100000:
                return "skip"
            r = sub.apply_op(m)
            if r == "skip":
                return "skip"
            sig["mop"] = m["op"]
            if m["op"] in ("remove", "pop", "push") or m.get("force"):
                ctx.nontrivial = True
        elif op == "restart":
            if step["chan"] not in sub.channels:
                return "skip"
            where = (step["dir"], self.env.fresh_name(sub.ext))
            payload = sub.export(step["chan"], where, step["style"])
            g = sub.load(payload, step["chan"], where, step["style"])
            if name == "BloomFilterOnDisk":
                if step["chan"] == "bytes":
                    if g.elements_added != self.expected():
                        raise Violation("count_after_load", f"{name}: loaded copy reports {g.elements_added}, expected "
                                                            f"{self.expected()}", sig)
                    return {"r": "ok"}
                sub.obj.close()
                sub.home = where
            sub.obj = g
            ctx.fault("restart_" + step["chan"])
            ctx.nontrivial = True
        elif op == "reopen":
            if name != "BloomFilterOnDisk":
                return "skip"
            sub.obj.close()
            self.env.scr.chdir(step["cwd"])
            sub.obj = sub.cls()(self.env.scr.spell(sub.home[0], sub.home[1], step["style"]), hash_function=self.env.hf)
            ctx.fault("close_reopen")
            ctx.nontrivial = True
        elif op == "setop":
            if name not in structs.BLOOM_SUBJECTS:
                return "skip"
            import probables

            C = probables.CountingBloomFilter if name == "CountingBloomFilter" else probables.BloomFilter
            sib = C(self.cfg["est"], self.cfg["rate"], hash_function=self.env.hf)
            for k in step["ks"]:
                sib.add(seams.key_of(k))
            if step.get("self"):
                sib = sub.obj  # the same object as receiver and operand
                ctx.probe("setop_with_itself")
            res = getattr(sub.obj, step["which"])(sib)
            if res is None:
                raise Violation("setop_refused", f"{step['which']} of compatible filters returned None", sig)
            est = check_stats(res, name == "CountingBloomFilter", sig, f"result of {step['which']}")
            if res.elements_added != est:
                raise Violation("setop_count_wrong", f"{step['which']} result: elements_added={res.elements_added}, its own "
                                                     f"estimate_elements()={est}", sig)
            ctx.fault("setop")
            ctx.nontrivial = True
        elif op == "join":
            if name not in ("CountMinSketch", "CountMeanSketch", "CountMeanMinSketch"):
                return "skip"
            second = sub.cls()(hash_function=self.env.hf, width=sub.obj.width, depth=sub.obj.depth)
            for k, n in step["adds"]:
                second.add(sub.key(k), n)
                sub.model[k] = sub.model.get(k, 0) + n
                sub.total += n
            sub.obj.join(second)
            ctx.fault("join")
            ctx.nontrivial = True
        else:
            raise HarnessError(op)
        o = sub.obj
        want = self.expected()
        if o.elements_added != want:
            raise Violation("elements_added_wrong", f"{name}: elements_added={o.elements_added}, documented quantity is "
                                                    f"{want} after {step}", sig)
        if name in structs.BLOOM_SUBJECTS:
            check_stats(o, name == "CountingBloomFilter", sig, name)
        ctx.state(name, op, min(want, 50))
        return {"r": "ok", "n": want}

    def simplify_step(self, step):
        if step["op"] == "mut" and step["m"].get("n", 1) > 1:
            s = dict(step)
            s["m"] = dict(step["m"], n=1)
            yield s
        if step["op"] == "restart" and step["chan"] != "bytes":
            s = dict(step)
            s["chan"] = "bytes"
            yield s

    def simplify_config(self, cfg):
        if cfg["hash"] != "fnv":
            c = dict(cfg)
            c["hash"] = "fnv"
            yield c


class C14Cuckoo(CuckooWorld):
    prop = "C14"
    allow_restart = True

    def counters(self, f, step, out, where, model=None):
        sig = self.sig(step, out, where=where)
        stored = 0
        bins = 0
        for bucket in f.buckets:
            for b in bucket:
                bins += 1
                stored += b.count if self.counting else 1
        if f.elements_added != stored:
            raise Violation("elements_added_wrong", f"{self.cls.__name__}: elements_added={f.elements_added}, the buckets "
                                                    f"hold {stored} ({bins} bins) {where} decisions={out.get('dec')}", sig)
        if self.counting and f.unique_elements != bins:
            raise Violation("unique_elements_wrong", f"unique_elements={f.unique_elements}, {bins} bins {where}", sig)
        if model is not None and f.elements_added != sum(model.values()):
            raise Violation("elements_added_wrong", f"{self.cls.__name__}: elements_added={f.elements_added}, the model "
                                                    f"holds {sum(model.values())} {where} decisions={out.get('dec')}", sig)
        num = bins if self.counting else stored
        want = num / (f.capacity * f.bucket_size)
        if f.load_factor() != want:
            raise Violation("load_factor_wrong", f"load_factor()={f.load_factor()!r}, expected {num}/({f.capacity}*"
                                                 f"{f.bucket_size}) {where}", sig)

    def judge(self, f, model, pre_model, step, out, branch):
        where = f"after {step['op']} ({out['r']}) branch={branch}"
        if out["r"] != "ok":
            self.counters(f, step, out, where)
            self.adopt(f, model, step)
        else:
            self.counters(f, step, out, where, model)

    def do_restart(self, step):
        chan = step["chan"]
        payload, path = cuckoo_export(self, self.f, chan)
        g = cuckoo_load(self, payload, path, chan)
        self.ctx.fault("restart_" + chan)
        self.ctx.nontrivial = True
        out = {"r": "ok"}
        self.counters(g, step, out, f"after load via {chan}", self.model)
        self.f = g
        return {"r": "ok"}


class C14Quotient(QuotientWorld):
    prop = "C14"
    try_refusals = True

    def observe(self, step):
        if not self.claim_open:
            return
        f = self.f
        sig = self.full_sig()
        sig["op"] = step["op"]
        sig["class"] = "QuotientFilter"
        if f.elements_added != len(self.model):
            raise Violation("elements_added_wrong", f"QuotientFilter: elements_added={f.elements_added}, {len(self.model)} "
                                                    f"hashes stored after {step}", sig)
        if f.load_factor != len(self.model) / f.size:
            raise Violation("load_factor_wrong", f"load_factor={f.load_factor!r}, expected {len(self.model)}/{f.size}", sig)
        if step["op"] in ("remove", "resize", "merge"):
            self.ctx.nontrivial = True
        self.ctx.state(f.size, len(self.model))


SPEC = PropSpec(
    prop="C14",
    scenarios=[(5, C14Struct), (3, C14Cuckoo), (2, C14Quotient)],
    runs={"quick": 40000, "thorough": 1000000},
    rule=("three scenario families, the counter oracle evaluated after EVERY step.  (1) the ten Bloom / expanding / "
          "rotating / count-min classes under add / remove / push / pop / clear-free histories with export+load over every "
          "channel, on-disk close+reopen from another cwd, union / intersection results (elements_added must equal the "
          "result's own estimate) and sketch joins; Bloom statistics are recomputed from the exported set-bit count.  "
          "(2) world K: elements_added = fingerprints (sum of counts) found in the exposed buckets AND per model, "
          "unique_elements = bins, load_factor = documented ratio, after every eviction schedule, fan-out branch, raised "
          "CuckooFilterFullError and load.  (3) world Q: elements_added = |model| and load_factor after every add / remove "
          "/ resize / merge.  non-trivial = a removal, growth, restart, join, set operation, eviction decision or "
          "expansion fired; distinct = event-log digests"),
    state_measure="mixed: (class, op, count) / bucket tables / (size, stored)",
    assumptions=["CPython 3.12", "counting-Bloom and sketch removals are generated only when legitimate, so the amount taken "
                 "is the amount asked", "estimate_elements may differ by the float rounding of one ulp at exact integers"],
    real_components=["all fourteen structures' counters and statistics, loaders, real files for path channels and on-disk filters"],
    stubbed_components=["`random` in cuckoo modules -> SimRandom", "hash_function (simulator strategies)"],
)
