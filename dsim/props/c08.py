"""C08 - counting filters count exactly and removal undoes addition."""
from ..core import HarnessError, Scenario, Violation
from .. import seams
from ..worlds import common, structs
from ..worlds.cuckoo import CuckooWorld
from . import PropSpec


class C08CountingBloom(Scenario):
    prop = "C08"
    max_steps = 40

    def gen_config(self, rng):
        est, rate = common.draw_geometry(rng, est_choices=(1, 2, 3, 5, 8), rates=(0.5, 0.3, 0.2, 0.1, 0.05, 0.01), max_bits=120)
        m, _ = common.geometry(est, rate)
        cfg = {"est": est, "rate": rate, "universe": rng.choice((3, 6, 12)), "steps": rng.between(3, self.max_steps)}
        cfg.update(structs.draw_hash(rng, m))
        # a counting filter with ANOTHER hash-strategy object sees the same keys and dies before this run's filter and
        # strategy object are created (Env.recycle)
        cfg["recycle"] = rng.chance(1, 4)
        return cfg

    def gen_step(self, rng):
        if self.n_gen >= self.cfg["steps"]:
            return None
        self.n_gen += 1
        u = self.cfg["universe"]
        r = rng.below(100)
        present = sorted(k for k, v in self.out.items() if v > 0)
        if rng.chance(1, 30):
            # several hundred look-ups of other keys between two operations of the history
            return {"op": "noise", "cnt": rng.choice((300, 520, 1100)), "tag": self.n_gen}
        if r < 45 or not present and r < 70:
            return {"op": "add", "k": rng.below(u), "n": rng.weighted([(10, 1), (6, 2), (2, 9), (2, 1000), (1, 2**31), (1, 3_000_000_000)])}
        if r < 70:
            k = rng.choice(present)
            return {"op": "remove", "k": k, "n": rng.between(1, self.out[k])}
        if r < 90:
            return {"op": "bracket", "adds": [[rng.below(u + 2), rng.weighted([(8, 1), (4, 3), (2, 70000), (1, 2**31 - 1), (1, 3_000_000_000)])]
                                              for _ in range(rng.between(1, 5))]}
        return {"op": "remove_absent", "k": rng.below(u + 6)}

    def setup(self, cfg):
        from probables import CountingBloomFilter

        self.cfg = cfg
        self.n_gen = 0
        self.env = structs.Env(self.ctx, cfg, need_fs=False)

        def prior_life(h):
            d = CountingBloomFilter(cfg["est"], cfg["rate"], hash_function=h)
            for k in range(cfg["universe"]):
                d.add(seams.key_of(k), 1 + k % 2)
                d.check(seams.key_of(k))

        self.env.recycle(prior_life)
        self.o = CountingBloomFilter(cfg["est"], cfg["rate"], hash_function=self.env.hf)
        self.m, self.k = common.geometry(cfg["est"], cfg["rate"])
        self.out = {}

    def coincide(self, k):
        hs = common.hashes_of(self.env.hf, seams.key_of(k), self.k)
        pos = [hs[i] % self.m for i in range(self.k)]
        return len(set(pos)) < len(pos)

    def would_saturate(self, adds):
        """the statement speaks about histories below the saturation limit: would these additions bring a cell to it?"""
        import struct as _struct

        b = bytes(self.o)[:-20]
        cells = list(_struct.unpack(f"{len(b) // 4}I", b))
        for k, n in adds:
            hs = common.hashes_of(self.env.hf, seams.key_of(k), self.k)
            for i in range(self.k):
                cells[hs[i] % self.m] += n
        return max(cells) >= 2**32 - 1 or sum(n for _, n in adds) + self.o.elements_added >= 2**63

    def apply(self, step):
        ctx = self.ctx
        o = self.o
        op = step["op"]
        ctx.count("op." + op)
        sig = {"class": "CountingBloomFilter", "op": op}
        if op == "add" and step["n"] > 100000 and self.would_saturate([(step["k"], step["n"])]):
            return "skip"
        if op == "bracket" and any(n > 100000 for _, n in step["adds"]) and self.would_saturate(step["adds"]):
            return "skip"
        if op in ("add", "bracket") and any(n > 100000 for _, n in ([(0, step["n"])] if op == "add" else step["adds"])):
            ctx.fault("amount_above_2^31")
        if op == "add":
            structs.api_add(o, seams.key_of(step["k"]), step.get("alt"), n=step["n"])
            self.out[step["k"]] = self.out.get(step["k"], 0) + step["n"]
            if self.coincide(step["k"]):
                ctx.fault("hash_collide")
                ctx.nontrivial = True
        elif op == "remove":
            if self.out.get(step["k"], 0) < step["n"]:
                return "skip"
            structs.api_remove(o, seams.key_of(step["k"]), step["n"], step.get("alt"))
            self.out[step["k"]] -= step["n"]
        elif op == "bracket":
            s0 = bytes(o)
            for k, n in step["adds"]:
                structs.api_add(o, seams.key_of(k), step.get("alt"), n=n)
                if self.coincide(k):
                    ctx.fault("hash_collide")
                    ctx.nontrivial = True
            mid = bytes(o)
            for k, n in reversed(step["adds"]):
                structs.api_remove(o, seams.key_of(k), n, step.get("alt"))
            s1 = bytes(o)
            if s1 != s0:
                d = [i for i in range(len(s0)) if s0[i] != s1[i]][:6]
                raise Violation("removal_does_not_undo", f"adds {step['adds']} undone in LIFO order do not restore the "
                                                         f"exported state (bytes differing at {d}; m={self.m} k={self.k})", sig)
            if mid != s0:
                ctx.probe("bracket_changed_state")
        elif op == "noise":
            for i in range(step["cnt"]):
                o.check(f"noise-{step['tag']}-{i}")
            ctx.fault("lookup_burst")
        elif op == "remove_absent":
            key = seams.key_of(step["k"])
            if o.check(key) != 0:
                return "skip"
            s0 = bytes(o)
            r = o.remove(key, 1)
            if r != 0 or bytes(o) != s0:
                raise Violation("absent_removal_changed", f"remove of absent key {step['k']} returned {r} / changed the "
                                                          f"export", sig)
            ctx.probe("remove_absent")
        else:
            raise HarnessError(op)
        for k in range(self.cfg["universe"]):
            c = structs.api_check(o, seams.key_of(k), alt=bool(k % 2))
            if c < self.out.get(k, 0):
                raise Violation("undercount", f"key {k}: {self.out.get(k, 0)} outstanding additions, check says {c} after "
                                              f"{step}", sig)
        ctx.state(self.m, self.k, sum(1 for v in self.out.values() if v))
        return {"r": "ok"}

    def simplify_step(self, step):
        if step.get("n", 1) > 1:
            s = dict(step)
            s["n"] = 1
            yield s
        if step["op"] == "bracket" and len(step["adds"]) > 1:
            for j in range(len(step["adds"])):
                s = dict(step)
                s["adds"] = step["adds"][:j] + step["adds"][j + 1:]
                yield s


class C08CountingCuckoo(CuckooWorld):
    prop = "C08"
    counting_choices = (True,)

    def run_op(self, f, model, step, sched_spec):
        self._pre_table = self.table(f)
        return super().run_op(f, model, step, sched_spec)

    def oracle_ok(self, f, model, pre_model, step, out, branch):
        sig = self.sig(step, out)
        if step["op"] == "remove":
            fp = self.fp_of(step["k"])
            if fp not in pre_model:
                if out.get("ret") is not False or self.table(f) != self._pre_table:
                    raise Violation("absent_removal_changed", f"remove of a key whose fingerprint {fp} is not stored returned "
                                                              f"{out.get('ret')} / changed the table branch={branch}", sig)
                self.ctx.probe("remove_absent")
            elif out.get("ret") is not True:
                raise Violation("present_removal_refused", f"remove of stored fingerprint {fp} returned {out.get('ret')}", sig)
        for fp, cnt in sorted(model.items()):
            got = f.check(seams.key_of(self.fp_key[fp]))
            if got != cnt:
                raise Violation("count_wrong", f"fingerprint {fp} (key {self.fp_key[fp]}): {cnt} outstanding additions, "
                                               f"check says {got} after {step['op']} decisions={out['dec']} "
                                               f"cap {out['cap0']}->{out['cap']} branch={branch}", sig)
        for k in range(min(self.cfg["universe"], 12)):
            fp = self.fp_of(k)
            if fp not in model and f.check(seams.key_of(k)) != 0:
                raise Violation("count_wrong", f"key {k} (fingerprint {fp}) has no outstanding addition, check says "
                                               f"{f.check(seams.key_of(k))}", sig)


SPEC = PropSpec(
    prop="C08",
    scenarios=[(1, C08CountingBloom), (2, C08CountingCuckoo)],
    runs={"quick": 40000, "thorough": 1000000},
    rule=("two scenarios.  CountingBloomFilter: <=120 cells, 7 hash strategies incl. range-squeezed (coinciding "
          "positions), <=40 steps of add(key,n) / legitimate remove / LIFO bracket (export, adds, undo in reverse, export "
          "must be identical) / removal of a key reported absent / bursts of several hundred look-ups of other keys; 1 run in 4 "
          "follows a prior-life filter with another strategy object; check >= outstanding for every key after every step.  "
          "CountingCuckooFilter: world K histories with every eviction decision owned by the simulator and fan-out over "
          "alternative tapes; check(key) must equal the model's outstanding count of the key's fingerprint after every "
          "call, across kicks and expansions; removing an absent key returns False and leaves the table unchanged.  "
          "non-trivial = coinciding positions hit (Bloom) / eviction decision or expansion fired (cuckoo); distinct = "
          "event-log digests"),
    state_measure="bucket tables (cuckoo) / (cells, hashes, live keys) (Bloom)",
    assumptions=["CPython 3.12", "below saturation only", "LIFO nesting only (commutation of removals is not assumed)"],
    real_components=["CountingBloomFilter", "CountingCuckooFilter"],
    stubbed_components=["`random` in the cuckoo modules -> SimRandom", "hash_function (simulator strategies)"],
)
